package cl

// C09 (b)-(d): no control string given to format, no index/size argument and
// no argument type tuple given to a built-in faults the host: the outcome of
// evaluating the call is a value or a Lisp condition.

import (
	"github.com/ohler55/slip"
	vrt "github.com/ohler55/slip/zzvrt"
	"runtime"
	"time"
)

const (
	zzC09Value   = 0 // returned
	zzC09Cond    = 1 // Lisp condition
	zzC09Fault   = 2 // raw Go run-time error
	zzC09Foreign = 3 // any other panic value (string, error of a library)
	zzC09Wrapped = 4 // *slip.Panic wrapping a Go panic (Value != nil): trace.go normalAfter default case
)

func zzC09Classify(rec any) int {
	switch tr := rec.(type) {
	case *slip.PartialPanic:
		return zzC09Cond
	case *slip.Panic:
		if tr.Value != nil {
			return zzC09Wrapped
		}
		return zzC09Cond
	case slip.Instance:
		return zzC09Cond
	case interface{ RuntimeError() }:
		return zzC09Fault
	default:
		return zzC09Foreign
	}
}

// zzC09Eval evaluates form in scope the way the REPL does and classifies the
// outcome.
func zzC09Eval(scope *slip.Scope, form slip.Object) (class int) {
	defer func() {
		if rec := recover(); rec != nil {
			class = zzC09Classify(rec)
		}
	}()
	scope.Eval(form, 0)
	return zzC09Value
}

// zzC09Streams: standard streams are in-memory string streams.
func zzC09Streams() {
	slip.StandardOutput = slip.NewStringStream(nil)
	slip.ErrorOutput = slip.NewStringStream(nil)
	slip.TraceOutput = slip.NewStringStream(nil)
	slip.StandardInput = slip.NewStringStream([]byte("zz\n"))
}

func zzC09Check(class int) {
	vrt.Assert(class != zzC09Fault && class != zzC09Wrapped, "Go run-time fault instead of a Lisp condition")
	vrt.Assert(class != zzC09Foreign, "panic with a value that is not a Lisp condition")
	vrt.Assert(vrt.Faults() <= 0, "Go run-time fault raised (and swallowed) on the way")
}

func zzC09Quote(obj slip.Object) slip.Object {
	return slip.List{slip.Symbol("quote"), obj}
}

// ---- (b) format ----

// zzC09FmtAlpha is the directive alphabet.
const zzC09FmtAlpha = "~:@,#v'-019adboxrcsp%&|t*?()[]{};^<>/$efgw\n "

var zzC09FmtTab = zzC09MakeTab(zzC09FmtAlpha)

func zzC09MakeTab(alpha string) (tab [256]uint8) {
	for i := 0; i < len(alpha); i++ {
		tab[alpha[i]] = 1
	}
	return
}

// zzC09FmtGrid: the concrete integers given to the radix directive (its code
// walks the decimal digits one table lookup per digit, so a symbolic integer
// would be enumerated value by value anyway).
var zzC09FmtGrid = []int64{0, 1, 4, 9, 10, 14, 19, 20, 21, 99, 100, 101, 110, 999, 1000, 1001, 1100, 2000, 3999, 4000, 10000,
	100000, 1000000, 1000001, 1000000000, 1234567, -1, -10, -1000, -4000, 9223372036854775807, -9223372036854775808}

// zzC09FmtArg builds argument number i of kind k: 0 symbolic fixnum (full
// range), 1 short string, 2 short list, 3 nil, 4 character, 5 double-float.
func zzC09FmtArg(i, k int, ints *[]int64) slip.Object {
	switch k {
	case 0:
		x := vrt.Int64("arg" + string(rune('0'+i)))
		zzC09Gap(x)
		*ints = append(*ints, x)
		return slip.Fixnum(x)
	case 1:
		return slip.String("ab")
	case 2:
		return zzC09Quote(slip.List{slip.Fixnum(1), slip.Fixnum(2)})
	case 4:
		return slip.Character('a')
	case 5:
		return slip.DoubleFloat(1.5)
	}
	return nil
}

func zzC09FmtCtl(n int) []byte {
	ctl := vrt.Bytes("ctl", n)
	for i := range ctl {
		vrt.Assume(zzC09FmtTab[ctl[i]] == 1)
	}
	return ctl
}

// VerifC09Format: (format nil <control> args...) with a control string of n
// symbolic bytes over the directive alphabet (the first byte is `~` when
// tilde != 0) and the arguments selected by k0, k1 (-1: absent).  The text of
// a symbolic integer is not modelled (opaque_int_text), so control strings
// containing the radix directive letter are left to VerifC09FormatRadix when
// an argument is a symbolic fixnum.
func VerifC09Format(n, tilde, k0, k1 int) {
	ctl := zzC09FmtCtl(n)
	if tilde != 0 && 0 < n {
		vrt.Assume(ctl[0] == '~')
	}
	if k0 == 0 || k1 == 0 {
		for i := range ctl {
			vrt.Assume(ctl[i] != 'r')
		}
	}
	var ints []int64
	form := slip.List{slip.Symbol("format"), nil, slip.String(ctl)}
	if 0 <= k0 {
		form = append(form, zzC09FmtArg(0, k0, &ints))
		if 0 <= k1 {
			form = append(form, zzC09FmtArg(1, k1, &ints))
		}
	}
	zzC09FmtCarves(ctl, k0, k1, ints)
	zzC09Streams()
	zzC09Guarded(slip.NewScope(), form, ints)
}

// VerifC09FormatRadix: "~" + (n-2) symbolic bytes + "r" with the concrete
// integer zzC09FmtGrid[g] as the only argument.
func VerifC09FormatRadix(n, g int) {
	ctl := zzC09FmtCtl(n)
	vrt.Assume(ctl[0] == '~' && ctl[n-1] == 'r')
	form := slip.List{slip.Symbol("format"), nil, slip.String(ctl), slip.Fixnum(zzC09FmtGrid[g])}
	zzC09RadixCarves(ctl, zzC09FmtGrid[g])
	zzC09Streams()
	zzC09Guarded(slip.NewScope(), form, nil)
}

// zzC09FmtCarves: regions of the recorded findings of C09.format.
func zzC09FmtCarves(ctl []byte, k0, k1 int, ints []int64) {
}

// zzC09RadixCarves: regions of the recorded findings of C09.format.radix.
func zzC09RadixCarves(ctl []byte, x int64) {
}

// ---- common runner ----

const (
	zzC09Steps     = 400000 // SSA instructions per guarded evaluation
	zzC09Decisions = 150    // symbolic decisions per guarded evaluation
	zzC09Small     = 8      // integers in (zzC09Small, 2^31] are not explored (see zzC09Gap)
	zzC09Huge      = int64(1) << 31
)

// zzC09Guarded evaluates form under the guard; ints are the symbolic integers
// of the case (sizes, counts, indexes).
func zzC09Guarded(scope *slip.Scope, form slip.Object, ints []int64) {
	class := zzC09Value
	cut := zzC09Guard(zzC09Steps, zzC09Decisions, func() { class = zzC09Eval(scope, form) })
	vrt.Reach("evaluated")
	vrt.Assert(cut != 1, "allocation whose size can exceed 2^31 elements")
	if cut == 2 {
		// an allocation of 65..2^31 elements: allowed, not explored further
		vrt.Reach("large-allocation-cut")
		return
	}
	if cut == 3 {
		// the evaluation did not finish within the budget: if an integer
		// argument can be above 2^31 here, the work is bounded by that argument
		// only (the native replay of the model runs under a 10 s / 2 GiB watchdog)
		for _, x := range ints {
			vrt.Assert(x <= zzC09Huge, "work bounded only by an integer argument that can exceed 2^31 (hang / unbounded allocation)")
		}
		vrt.Unsupported("evaluation exceeds the step budget although every integer argument is at most 2^31")
		return
	}
	if cut == 4 {
		vrt.Unsupported("evaluation forks more often than the decision budget")
		return
	}
	zzC09Check(class)
}

// zzC09Gap assumes x outside (zzC09Small, 2^31]: sizes and counts in that
// range are legitimate work for the code under test (allocation and loops
// proportional to the argument) which the engine would unroll value by value;
// they behave like "larger than every sequence of the case" for indexes.
func zzC09Gap(x int64) {
	vrt.Assume(uint64(x-(zzC09Small+1)) > uint64(zzC09Huge-(zzC09Small+1)))
}

// ---- (c) index arithmetic ----

// zzC09IdxRow is one call shape.  Placeholders (symbols) in tmpl: S the
// sequence under test, T a second sequence of the same type (length 2), A B C
// symbolic fixnums (full range), X an element of S, Y another element value.
// kinds: which sequence types apply (l list, v vector, s string, b bit-vector);
// "-" = no sequence (one case).
type zzC09IdxRow struct {
	tmpl  string
	kinds string
}

var zzC09IdxRows = []zzC09IdxRow{
	{"(subseq S A)", "lvsb"},                                                        // 0
	{"(subseq S A B)", "lvsb"},                                                      // 1
	{"(nth A S)", "l"},                                                              // 2
	{"(nthcdr A S)", "l"},                                                           // 3
	{"(butlast S A)", "l"},                                                          // 4
	{"(nbutlast S A)", "l"},                                                         // 5
	{"(last S A)", "l"},                                                             // 6
	{"(elt S A)", "lvsb"},                                                           // 7
	{"(aref S A)", "vsb"},                                                           // 8
	{"(svref S A)", "v"},                                                            // 9
	{"(char S A)", "s"},                                                             // 10
	{"(schar S A)", "s"},                                                            // 11
	{"(bit S A)", "b"},                                                              // 12
	{"(sbit S A)", "b"},                                                             // 13
	{"(fill S Y :start A :end B)", "lvsb"},                                          // 14
	{"(replace S T :start1 A :end1 B)", "lvsb"},                                     // 15
	{"(replace S T :start2 A :end2 B)", "lvsb"},                                     // 16
	{"(search T S :start1 A :end1 B)", "lvsb"},                                      // 17
	{"(search T S :start2 A :end2 B)", "lvsb"},                                      // 18
	{"(mismatch S T :start1 A :end1 B)", "lvsb"},                                    // 19
	{"(mismatch S T :start2 A :end2 B)", "lvsb"},                                    // 20
	{"(position X S :start A :end B)", "lvsb"},                                      // 21
	{"(position X S :start A :end B :from-end t)", "lvsb"},                          // 22
	{"(find X S :start A :end B)", "lvsb"},                                          // 23
	{"(count X S :start A :end B)", "lvsb"},                                         // 24
	{"(remove X S :start A :end B)", "lvsb"},                                        // 25
	{"(remove X S :count A)", "lvsb"},                                               // 26
	{"(delete X S :start A :end B)", "lvsb"},                                        // 27
	{"(delete X S :count A)", "lvsb"},                                               // 28
	{"(substitute Y X S :start A :end B)", "lvsb"},                                  // 29
	{"(substitute Y X S :count A)", "lvsb"},                                         // 30
	{"(nsubstitute Y X S :start A :end B)", "lvsb"},                                 // 31
	{"(nsubstitute Y X S :count A)", "lvsb"},                                        // 32
	{"(position-if (function identity) S :start A :end B)", "lv"},                   // 33
	{"(find-if (function identity) S :start A :end B)", "lv"},                       // 34
	{"(count-if (function identity) S :start A :end B)", "lv"},                      // 35
	{"(remove-if (function identity) S :start A :end B)", "lv"},                     // 36
	{"(remove-if (function identity) S :count A)", "lv"},                            // 37
	{"(delete-if (function identity) S :start A :end B)", "lv"},                     // 38
	{"(substitute-if Y (function identity) S :start A :end B)", "lv"},               // 39
	{"(nsubstitute-if Y (function identity) S :start A :end B)", "lv"},              // 40
	{"(remove-duplicates S :start A :end B)", "lvs"},                                // 41
	{"(delete-duplicates S :start A :end B)", "lvs"},                                // 42
	{"(reduce (function list) S :start A :end B)", "lv"},                            // 43
	{"(make-list A)", "-"},                                                          // 44
	{"(make-string A)", "-"},                                                        // 45
	{"(make-array A)", "-"},                                                         // 46
	{"(make-array (list A B))", "-"},                                                // 47
	{"(make-array A :element-type (quote bit))", "-"},                               // 48
	{"(make-sequence (quote list) A)", "-"},                                         // 49
	{"(make-sequence (quote string) A)", "-"},                                       // 50
	{"(make-sequence (quote vector) A)", "-"},                                       // 51
	{"(string-upcase S :start A :end B)", "s"},                                      // 52
	{"(string-downcase S :start A :end B)", "s"},                                    // 53
	{"(string-capitalize S :start A :end B)", "s"},                                  // 54
	{"(nstring-upcase S :start A :end B)", "s"},                                     // 55
	{"(nstring-downcase S :start A :end B)", "s"},                                   // 56
	{"(nstring-capitalize S :start A :end B)", "s"},                                 // 57
	{"(string= S T :start1 A :end1 B)", "s"},                                        // 58
	{"(string= S T :start2 A :end2 B)", "s"},                                        // 59
	{"(string< S T :start1 A :end1 B)", "s"},                                        // 60
	{"(string< S T :start2 A :end2 B)", "s"},                                        // 61
	{"(string-equal S T :start1 A :end1 B)", "s"},                                   // 62
	{"(string-lessp S T :start2 A :end2 B)", "s"},                                   // 63
	{"(string/= S T :start1 A :end2 B)", "s"},                                       // 64
	{"(string> S T :start1 A :end1 B)", "s"},                                        // 65
	{"(string-not-equal S T :start1 A :end1 B)", "s"},                               // 66
	{"(parse-integer S :start A :end B)", "s"},                                      // 67
	{"(parse-integer S :radix A)", "s"},                                             // 68
	{"(read-from-string S nil nil :start A :end B)", "s"},                           // 69
	{"(write-string S nil :start A :end B)", "s"},                                   // 70
	{"(write-line S nil :start A :end B)", "s"},                                     // 71
	{"(write-sequence S *standard-output* :start A :end B)", "lvs"},                 // 72
	{"(make-string-input-stream S A B)", "s"},                                       // 73
	{"(with-input-from-string (zzs S :start A :end B) (read-char zzs nil))", "s"},   // 74
	{"(ash A B)", "-"},                                                              // 75
	{"(expt A B)", "-"},                                                             // 76
	{"(gi:string-repeat \"ab\" A)", "-"},                                            // 77
	{"(logbitp A B)", "-"},                                                          // 78
	{"(ldb (byte A B) -5)", "-"},                                                    // 79
	{"(dpb -3 (byte A B) 5)", "-"},                                                  // 80
	{"(ldb-test (byte A B) -5)", "-"},                                               // 81
	{"(mask-field (byte A B) -5)", "-"},                                             // 82
	{"(deposit-field -3 (byte A B) 5)", "-"},                                        // 83
	{"(code-char A)", "-"},                                                          // 84
	{"(digit-char A B)", "-"},                                                       // 85
	{"(digit-char-p #\\a A)", "-"},                                                  // 86
	{"(make-string A :initial-element #\\a)", "-"},                                  // 87
	{"(make-list A :initial-element 1)", "-"},                                       // 88
	{"(adjust-array S A)", "vsb"},                                                   // 89
	{"(row-major-aref S A)", "vsb"},                                                 // 90
	{"(array-dimension S A)", "vsb"},                                                // 91
	{"(array-in-bounds-p S A)", "vsb"},                                              // 92
	{"(array-row-major-index S A)", "vsb"},                                          // 93
	{"(aref (make-array (quote (2 2))) A B)", "-"},                                  // 94
	{"(array-row-major-index (make-array (quote (2 2))) A B)", "-"},                 // 95
	{"(setf (aref S A) Y)", "vsb"},                                                  // 96
	{"(setf (elt S A) Y)", "lvsb"},                                                  // 97
	{"(setf (nth A S) Y)", "l"},                                                     // 98
	{"(setf (subseq S A B) T)", "lvsb"},                                             // 99
	{"(setf (char S A) Y)", "s"},                                                    // 100
	{"(setf (bit S A) Y)", "b"},                                                     // 101
	{"(floor A B)", "-"},                                                            // 102
	{"(ceiling A B)", "-"},                                                          // 103
	{"(truncate A B)", "-"},                                                         // 104
	{"(round A B)", "-"},                                                            // 105
	{"(mod A B)", "-"},                                                              // 106
	{"(rem A B)", "-"},                                                              // 107
	{"(/ A B)", "-"},                                                                // 108
	{"(gi:make-octets A)", "-"},                                                     // 109
	{"(nthcdr A (quote (1 2 . 3)))", "-"},                                           // 110
	{"(butlast (quote (1 2 . 3)) A)", "-"},                                          // 111
	{"(random A)", "-"},                                                             // 112
	{"(dotimes (zzi A) nil)", "-"},                                                  // 113
	{"(vector-push-extend Y S A)", "v"},                                             // 114
	{"(make-array 2 :fill-pointer A)", "-"},                                         // 115
	{"(setf (fill-pointer (make-array 3 :fill-pointer 1)) A)", "-"},                 // 116
	{"(make-hash-table :size A)", "-"},                                              // 117
	{"(nth-value A (values 1 2))", "-"},                                             // 118
	{"(list-length S)", "l"},                                                        // 119
	{"(string-left-trim T S)", "s"},                                                 // 120
	{"(concatenate (quote string) S T)", "s"},                                       // 121
	{"(map-into S (function identity) T)", "lv"},                                    // 122
	{"(boole A B C)", "-"},                                                          // 123
	{"(scale-float 1.5 A)", "-"},                                                    // 124
	{"(float-sign 1.0 2.0)", "-"},                                                   // 125
	{"(byte-size (byte A B))", "-"},                                                 // 126
	{"(last (quote (1 2 . 3)) A)", "-"},                                             // 127
	{"(peek-char nil (make-string-input-stream S A))", "s"},                         // 128
	{"(file-position (make-string-input-stream S) A)", "s"},                         // 129
	{"(read-sequence S (make-string-input-stream \"xyz\") :start A :end B)", "lvs"}, // 130
	{"(subseq S A nil)", "lvsb"},                                                    // 131
	{"(bit-and S T)", "b"},                                                          // 132
	{"(bit-not S)", "b"},                                                            // 133
	{"(bit-xor S T S)", "b"},                                                        // 134
	{"(format nil \"~vd\" A 1)", "-"},                                               // 135
}

const zzC09KindChars = "lvsb"

// zzC09Seq builds the sequence literal of a kind and length by evaluating
// Lisp text (concrete).
func zzC09Seq(scope *slip.Scope, kind byte, n int) slip.Object {
	var src string
	switch kind {
	case 'l':
		src = []string{"nil", "(list 1)", "(list 1 2)", "(list 1 2 3)", "(list 1 2 3 2)"}[n]
	case 'v':
		src = []string{"(vector)", "(vector 1)", "(vector 1 2)", "(vector 1 2 3)", "(vector 1 2 3 2)"}[n]
	case 's':
		src = []string{"(copy-seq \"\")", "(copy-seq \"a\")", "(copy-seq \"ab\")", "(copy-seq \"abc\")", "(copy-seq \"abcb\")"}[n]
	default:
		src = []string{"(make-array 0 :element-type 'bit)", "(copy-seq #*1)", "(copy-seq #*10)", "(copy-seq #*101)", "(copy-seq #*1011)"}[n]
	}
	return slip.ReadString(src, scope).Eval(scope, nil)
}

// zzC09Subst replaces the placeholder symbols in a form read from a template.
func zzC09Subst(obj slip.Object, env map[string]slip.Object) slip.Object {
	switch to := obj.(type) {
	case slip.Symbol:
		if v, has := env[string(to)]; has {
			return v
		}
	case slip.List:
		out := make(slip.List, len(to))
		for i := range to {
			out[i] = zzC09Subst(to[i], env)
		}
		return out
	}
	return obj
}

func zzC09HasSym(obj slip.Object, name string) bool {
	switch to := obj.(type) {
	case slip.Symbol:
		return string(to) == name
	case slip.List:
		for i := range to {
			if zzC09HasSym(to[i], name) {
				return true
			}
		}
	}
	return false
}

// VerifC09Index: row of zzC09IdxRows, sequence kind (index into "lvsb") and
// length 0..3; A, B, C are symbolic fixnums over the full int64 range.
func VerifC09Index(row, kind, n int) {
	r := zzC09IdxRows[row]
	zzC09Streams()
	scope := slip.NewScope()
	code := slip.ReadString(r.tmpl, scope)
	tmpl := code[0]
	env := map[string]slip.Object{}
	if r.kinds != "-" {
		k := zzC09KindChars[kind]
		applies := false
		for i := 0; i < len(r.kinds); i++ {
			if r.kinds[i] == k {
				applies = true
			}
		}
		if !applies {
			vrt.Reach("evaluated")
			return
		}
		env["S"] = zzC09Quote(zzC09Seq(scope, k, n))
		env["T"] = zzC09Quote(zzC09Seq(scope, k, 2))
		switch k {
		case 's':
			env["X"] = slip.Character('b')
			env["Y"] = slip.Character('z')
		case 'b':
			env["X"] = slip.Fixnum(1)
			env["Y"] = slip.Fixnum(0)
		default:
			env["X"] = slip.Fixnum(2)
			env["Y"] = slip.Fixnum(9)
		}
	}
	var ints []int64
	for _, name := range []string{"A", "B", "C"} {
		if zzC09HasSym(tmpl, name) {
			x := vrt.Int64(name)
			zzC09Gap(x)
			ints = append(ints, x)
			env[name] = slip.Fixnum(x)
		}
	}
	form := zzC09Subst(tmpl, env)
	zzC09IdxCarves(row, kind, n, ints)
	zzC09Guarded(scope, form, ints)
}

// zzC09IdxCarves: regions of the recorded findings of C09.index.
func zzC09IdxCarves(row, kind, n int, ints []int64) {
}

// ---- (d) type tuples ----

// zzC09PoolSize is the number of representative argument objects.
const zzC09PoolSize = 12

// zzC09PoolName documents the pool (index = object kind).
var zzC09PoolName = [zzC09PoolSize]string{"fixnum", "bignum", "ratio", "double-float", "string", "symbol", "keyword",
	"character", "list", "vector", "hash-table", "nil"}

// zzC09PoolObj builds pool object k.  The fixnum is symbolic (full range) when
// sym is set, 3 otherwise.
func zzC09PoolObj(scope *slip.Scope, k int, name string, sym bool) slip.Object {
	switch k {
	case 0:
		if sym {
			return slip.Fixnum(vrt.Int64(name))
		}
		return slip.Fixnum(3)
	case 1:
		return slip.ReadString("1180591620717411303424", scope)[0] // 2^70
	case 2:
		return slip.ReadString("1/3", scope)[0]
	case 3:
		return slip.DoubleFloat(1.5)
	case 4:
		return slip.String("ab")
	case 5:
		return slip.Symbol("zzc09sym")
	case 6:
		return slip.Symbol(":zzc09key")
	case 7:
		return slip.Character('a')
	case 8:
		return slip.List{slip.Fixnum(1), slip.Fixnum(2)}
	case 9:
		return slip.ReadString("(vector 1 2)", scope).Eval(scope, nil)
	case 10:
		return slip.ReadString("(make-hash-table)", scope).Eval(scope, nil)
	}
	return nil
}

// zzC09ArgForm: the form that makes a function receive obj: obj itself when
// the function does not evaluate that argument (special forms and macros see
// the raw object) or when it evaluates to itself, (quote obj) for symbols and
// lists.
func zzC09ArgForm(obj slip.Object, skipEval bool) slip.Object {
	if skipEval {
		return obj
	}
	switch to := obj.(type) {
	case slip.List:
		return zzC09Quote(to)
	case slip.Symbol:
		if 0 < len(to) && to[0] == ':' {
			return to
		}
		return zzC09Quote(to)
	}
	return obj
}

// zzC09TupleExcluded lists the built-ins VerifC09Tuple does not call, with
// the reason (the first three groups are the exclusions of the C04 arity check).
var zzC09TupleExcluded = map[string]string{
	// change the state of the checking process or of the machine
	"gi:clearenv":    "clears the environment of the checking process",
	"gi:setenv":      "changes the environment of the checking process",
	"gi:unsetenv":    "changes the environment of the checking process",
	"gi:send-signal": "sends a signal to a process",
	"gi:run":         "starts a goroutine",
	"gi:make-app":    "writes an application directory and runs the Go tool chain",
	// block, sleep or never return
	"common-lisp:sleep": "sleeps",
	"common-lisp:loop":  "(loop) without clauses never returns",
	"gi:signal-wait":    "blocks until a signal arrives",
	"gi:select":         "blocks on channels",
	"gi:time-after":     "starts a timer goroutine",
	"gi:time-ticker":    "starts a ticker goroutine",
	"gi:channel-pop":    "blocks on an empty channel",
	"gi:channel-push":   "blocks on a full channel",
	"gi:range":          "blocks on a channel",
	"gi:read-push":      "pushes to a channel (blocks when full)",
	// create, modify or delete files
	"common-lisp:open":                     "creates files",
	"common-lisp:delete-file":              "deletes files",
	"common-lisp:rename-file":              "renames files",
	"common-lisp:ensure-directories-exist": "creates directories",
	"common-lisp:dribble":                  "creates a file and redirects the standard streams",
	"common-lisp:load":                     "reads and evaluates a file",
	"common-lisp:require":                  "reads and evaluates files",
	"common-lisp:with-open-file":           "creates files",
	"gi:encrypt-file":                      "writes files",
	"gi:decrypt-file":                      "writes files",
	"gi:save":                              "writes a file",
	"bag:load-bag":                         "reads a file",
	// raises a Go panic by design
	"gi:panic": "raises its argument as a Go panic (the documented purpose of the function)",
	// the engine cannot execute the body (native runtime / OS structures)
	"gi:unzip":                "compress/gzip over an interpreted reader",
	"gi:zip":                  "compress/gzip over an interpreted writer",
	"common-lisp:file-author": "syscall.Stat",
	"common-lisp:lisp-implementation-version": "reads runtime/debug build info",
	"common-lisp:machine-instance":            "os.Hostname",
	"common-lisp:room":                        "runtime.ReadMemStats",
	"gi:memstat":                              "runtime.ReadMemStats",
	"gi:snapshot":                             "walks native runtime structures",
	"common-lisp:print-unreadable-object":     "prints the address of its argument (uintptr conversion)",
	"bag:discover-json":                       "ojg discover with an interpreted callback",
}

func zzC09Find(key string) *slip.FuncInfo {
	for i := 0; i < len(key); i++ {
		if key[i] == ':' {
			p := slip.FindPackage(key[:i])
			if p == nil {
				return nil
			}
			return p.GetFunc(key[i+1:])
		}
	}
	return nil
}

// VerifC09Registry: the table zzC09Names is exactly the registry built by the
// package inits, so "every function" is every function; the exclusion list
// only names registry functions.
func VerifC09Registry() {
	inTable := map[string]bool{}
	for i := 0; i < len(zzC09Names); i++ {
		vrt.Assert(!inTable[zzC09Names[i]], "duplicate entry in the C09 function table")
		inTable[zzC09Names[i]] = true
	}
	count := 0
	for _, pn := range []string{"bag", "clos", "common-lisp", "flavors", "generic", "gi"} {
		p := slip.FindPackage(pn)
		vrt.Assert(p != nil && p.Name == pn, "package missing")
		missing := 0
		p.EachFuncInfo(func(fi *slip.FuncInfo) {
			if fi.Pkg != p {
				return
			}
			count++
			if !inTable[pn+":"+fi.Name] {
				missing++
			}
		})
		vrt.Assert(missing == 0, "a registry function is missing from the C09 function table (regenerate it)")
	}
	vrt.Assert(count == len(zzC09Names), "the C09 function table has entries that are not in the registry")
	for key := range zzC09TupleExcluded {
		vrt.Assert(inTable[key], "exclusion list names an unknown function")
	}
	vrt.Note("functions", count, "excluded", len(zzC09TupleExcluded))
	vrt.Reach("registry")
}

func zzC09EvalFunc(scope *slip.Scope, fi *slip.FuncInfo, objs []slip.Object) (class int) {
	defer func() {
		if rec := recover(); rec != nil {
			class = zzC09Classify(rec)
		}
	}()
	probe := fi.Create(nil)
	se, _ := probe.(interface{ SkipArgEval(int) bool })
	forms := make(slip.List, len(objs))
	for i := range objs {
		forms[i] = zzC09ArgForm(objs[i], se != nil && se.SkipArgEval(i))
	}
	scope.Eval(fi.Create(forms), 0)
	return zzC09Value
}

// VerifC09Tuple: function idx of the registry table called with one argument
// (a0 == -1: every pool object in turn) or with two (a0 >= 0: pool object a0
// first, every pool object in turn second).
func VerifC09Tuple(idx, a0 int) {
	key := zzC09Names[idx]
	fi := zzC09Find(key)
	vrt.Assert(fi != nil, "table entry is not in the registry")
	if _, ex := zzC09TupleExcluded[key]; ex {
		vrt.Reach("excluded")
		return
	}
	zzC09Streams()
	for a1 := 0; a1 < zzC09PoolSize; a1++ {
		scope := slip.NewScope()
		var objs []slip.Object
		if a0 < 0 {
			objs = []slip.Object{zzC09PoolObj(scope, a1, "x0", false)}
		} else {
			objs = []slip.Object{zzC09PoolObj(scope, a0, "x0", false), zzC09PoolObj(scope, a1, "x1", false)}
		}
		zzC09TupleCarves(key, a0, a1)
		class := zzC09Value
		cut := zzC09Guard(zzC09Steps, zzC09Decisions, func() { class = zzC09EvalFunc(scope, fi, objs) })
		vrt.Note("class", key, a0, a1, class, cut)
		vrt.Reach("called")
		vrt.Assert(cut == 0, "evaluation does not finish within its budget")
		zzC09Check(class)
	}
}

// zzC09TupleCarves: regions of the recorded findings of C09.tuple.
func zzC09TupleCarves(key string, a0, a1 int) {
}

// zzC09Guard runs f (which recovers its own panics) and reports how it ended:
// 0 it returned; 1 it allocated without bound; 2 (engine only) it reached an
// allocation of 65..2^31 elements, which the engine does not explore further;
// 3 it did not finish within its budget of steps (natively: of time); 4
// (engine only) it forked more often than its budget of symbolic decisions.  In the engine this function is an
// intrinsic (/verif/engine/x_c09.go): budgets are SSA instructions and
// symbolic decisions, "without bound" means an allocation whose symbolic size
// can exceed 2^31 elements under the path condition.  Natively (replay of a
// model) f runs in a goroutine under a watchdog: more than 2 GiB obtained from
// the system => 1, more than 10 s => 3.
func zzC09Guard(steps, decisions int, f func()) int {
	var base runtime.MemStats
	runtime.ReadMemStats(&base)
	done := make(chan struct{})
	go func() {
		defer close(done)
		f()
	}()
	tick := time.NewTicker(10 * time.Millisecond)
	defer tick.Stop()
	deadline := time.After(10 * time.Second)
	for {
		select {
		case <-done:
			return 0
		case <-deadline:
			return 3
		case <-tick.C:
			var ms runtime.MemStats
			runtime.ReadMemStats(&ms)
			if base.Sys+(2<<30) < ms.Sys {
				return 1
			}
		}
	}
}
