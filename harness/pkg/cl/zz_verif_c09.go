package cl

// C09 (b)-(d): no control string given to format, no index/size argument and
// no argument type tuple given to a built-in faults the host: the outcome of
// evaluating the call is a value or a Lisp condition.

import (
	"github.com/ohler55/slip"
	vrt "github.com/ohler55/slip/zzvrt"
	"runtime"
	"time"
)

const (
	zzC09Value   = 0 // returned
	zzC09Cond    = 1 // Lisp condition
	zzC09Fault   = 2 // raw Go run-time error
	zzC09Foreign = 3 // any other panic value (string, error of a library)
	zzC09Wrapped = 4 // *slip.Panic wrapping a Go panic (Value != nil): trace.go normalAfter default case
)

func zzC09Classify(rec any) int {
	switch tr := rec.(type) {
	case *slip.PartialPanic:
		return zzC09Cond
	case *slip.Panic:
		if tr.Value != nil {
			return zzC09Wrapped
		}
		return zzC09Cond
	case slip.Instance:
		return zzC09Cond
	case interface{ RuntimeError() }:
		return zzC09Fault
	default:
		return zzC09Foreign
	}
}

// zzC09Eval evaluates form in scope the way the REPL does and classifies the
// outcome.
func zzC09Eval(scope *slip.Scope, form slip.Object) (class int) {
	defer func() {
		if rec := recover(); rec != nil {
			class = zzC09Classify(rec)
		}
	}()
	scope.Eval(form, 0)
	return zzC09Value
}

// zzC09Streams: standard streams are in-memory string streams.
func zzC09Streams() {
	slip.StandardOutput = slip.NewStringStream(nil)
	slip.ErrorOutput = slip.NewStringStream(nil)
	slip.TraceOutput = slip.NewStringStream(nil)
	slip.StandardInput = slip.NewStringStream([]byte("zz\n"))
}

func zzC09Check(class int) {
	vrt.Assert(class != zzC09Fault && class != zzC09Wrapped, "Go run-time fault instead of a Lisp condition")
	vrt.Assert(class != zzC09Foreign, "panic with a value that is not a Lisp condition")
	vrt.Assert(vrt.Faults() <= 0, "Go run-time fault raised (and swallowed) on the way")
}

func zzC09Quote(obj slip.Object) slip.Object {
	return slip.List{slip.Symbol("quote"), obj}
}

// ---- (b) format ----

// zzC09FmtAlpha is the directive alphabet.
const zzC09FmtAlpha = "~:@,#v'-019adboxrcsp%&|t*?()[]{};^<>/$efgw\n "

var zzC09FmtTab = zzC09MakeTab(zzC09FmtAlpha)

func zzC09MakeTab(alpha string) (tab [256]uint8) {
	for i := 0; i < len(alpha); i++ {
		tab[alpha[i]] = 1
	}
	return
}

// zzC09FmtIntBound bounds the symbolic fixnum argument of C09.format (its
// decimal text is inspected digit by digit by ~R and ~:D).
const zzC09FmtIntBound = 100000

// zzC09FmtArg builds argument number i of kind k: 0 symbolic fixnum, 1 short
// string, 2 short list, 3 nil.
func zzC09FmtArg(i, k int) slip.Object {
	switch k {
	case 0:
		x := vrt.Int64("arg" + string(rune('0'+i)))
		vrt.Assume(-zzC09FmtIntBound < x && x < zzC09FmtIntBound)
		return slip.Fixnum(x)
	case 1:
		return slip.String("ab")
	case 2:
		return zzC09Quote(slip.List{slip.Fixnum(1), slip.Fixnum(2)})
	}
	return nil
}

// VerifC09Format: (format nil <control> args...) with a control string of n
// symbolic bytes over the directive alphabet (the first byte is `~` when
// tilde != 0) and the arguments selected by k0, k1 (-1: absent).
func VerifC09Format(n, tilde, k0, k1 int) {
	ctl := vrt.Bytes("ctl", n)
	for i := range ctl {
		vrt.Assume(zzC09FmtTab[ctl[i]] == 1)
	}
	if tilde != 0 && 0 < n {
		vrt.Assume(ctl[0] == '~')
	}
	form := slip.List{slip.Symbol("format"), nil, slip.String(ctl)}
	if 0 <= k0 {
		form = append(form, zzC09FmtArg(0, k0))
		if 0 <= k1 {
			form = append(form, zzC09FmtArg(1, k1))
		}
	}
	zzC09Streams()
	scope := slip.NewScope()
	class := zzC09Eval(scope, form)
	vrt.Reach("formatted")
	zzC09Check(class)
}

// zzC09Guard runs f (which recovers its own panics) and reports how it ended:
// 0 it returned; 1 it allocated without bound; 2 (engine only) it reached an
// allocation of 65..2^31 elements, which the engine does not explore further;
// 3 it did not finish within its budget.  In the engine this function is an
// intrinsic (/verif/engine/x_c09.go): budgets are SSA instructions and
// symbolic decisions, "without bound" means an allocation whose symbolic size
// can exceed 2^31 elements under the path condition.  Natively (replay of a
// model) f runs in a goroutine under a watchdog: more than 2 GiB obtained from
// the system => 1, more than 10 s => 3.
func zzC09Guard(steps, decisions int, f func()) int {
	var base runtime.MemStats
	runtime.ReadMemStats(&base)
	done := make(chan struct{})
	go func() {
		defer close(done)
		f()
	}()
	tick := time.NewTicker(10 * time.Millisecond)
	defer tick.Stop()
	deadline := time.After(10 * time.Second)
	for {
		select {
		case <-done:
			return 0
		case <-deadline:
			return 3
		case <-tick.C:
			var ms runtime.MemStats
			runtime.ReadMemStats(&ms)
			if base.Sys+(2<<30) < ms.Sys {
				return 1
			}
		}
	}
}
