package cl

// C09 (b)-(d): no control string given to format, no index/size argument and
// no argument type tuple given to a built-in faults the host: the outcome of
// evaluating the call is a value or a Lisp condition.

import (
	"github.com/ohler55/slip"
	vrt "github.com/ohler55/slip/zzvrt"
	"runtime"
	"strconv"
	"time"
)

const (
	zzC09Value   = 0 // returned
	zzC09Cond    = 1 // Lisp condition
	zzC09Fault   = 2 // raw Go run-time error
	zzC09Foreign = 3 // any other panic value (string, error of a library)
	zzC09Wrapped = 4 // *slip.Panic wrapping a Go panic (Value != nil): trace.go normalAfter default case
)

func zzC09Classify(rec any) int {
	switch tr := rec.(type) {
	case *slip.PartialPanic:
		return zzC09Cond
	case *slip.Panic:
		if tr.Value != nil {
			return zzC09Wrapped
		}
		return zzC09Cond
	case slip.Instance:
		return zzC09Cond
	case interface{ RuntimeError() }:
		return zzC09Fault
	default:
		return zzC09Foreign
	}
}

// zzC09Eval evaluates form in scope the way the REPL does and classifies the
// outcome.
func zzC09Eval(scope *slip.Scope, form slip.Object) (class int) {
	defer func() {
		if rec := recover(); rec != nil {
			class = zzC09Classify(rec)
		}
	}()
	scope.Eval(form, 0)
	return zzC09Value
}

// zzC09Streams: standard streams are in-memory string streams.
func zzC09Streams() {
	slip.StandardOutput = slip.NewStringStream(nil)
	slip.ErrorOutput = slip.NewStringStream(nil)
	slip.TraceOutput = slip.NewStringStream(nil)
	slip.StandardInput = slip.NewStringStream([]byte("zz\n"))
}

func zzC09Check(class int) {
	vrt.Assert(class != zzC09Fault && class != zzC09Wrapped, "Go run-time fault instead of a Lisp condition")
	vrt.Assert(class != zzC09Foreign, "panic with a value that is not a Lisp condition")
	vrt.Assert(vrt.Faults() <= 0, "Go run-time fault raised (and swallowed) on the way")
}

func zzC09Quote(obj slip.Object) slip.Object {
	return slip.List{slip.Symbol("quote"), obj}
}

// ---- (b) format ----

// zzC09FmtAlpha is the directive alphabet.
const zzC09FmtAlpha = "~:@,#v'-019adboxrcsp%&|t*?()[]{};^<>/$efgw\n "

var zzC09FmtTab = zzC09MakeTab(zzC09FmtAlpha)

func zzC09MakeTab(alpha string) (tab [256]uint8) {
	for i := 0; i < len(alpha); i++ {
		tab[alpha[i]] = 1
	}
	return
}

// zzC09FmtGrid: the concrete integers given to the radix directive (its code
// walks the decimal digits one table lookup per digit, so a symbolic integer
// would be enumerated value by value anyway).
var zzC09FmtGrid = []int64{0, 1, 4, 9, 10, 14, 19, 20, 21, 99, 100, 101, 110, 999, 1000, 1001, 1100, 2000, 3999, 4000, 10000,
	100000, 1000000, 1000001, 1000000000, 1234567, -1, -10, -1000, -4000, 9223372036854775807, -9223372036854775808}

// zzC09FmtInts: the fixnum arguments of C09.format, one engine fork each (a
// symbolic fixnum is useless here: slip converts integer directive parameters
// through float64 (Integer.RealValue) and ~R walks the decimal digits, neither
// of which the engine models).
var zzC09FmtInts = []int64{0, 1, 3, -1, 1 << 40, -(1 << 40), 9223372036854775807, -9223372036854775808}

// zzC09FmtArg builds argument number i of kind k: 0 a fixnum of zzC09FmtInts
// (engine fork), 1 short string, 2 short list, 3 nil, 4 character, 5 double-float,
// 6 the fixnum 7.
func zzC09FmtArg(i, k int, ints *[]int64) slip.Object {
	switch k {
	case 0:
		x := zzC09FmtInts[vrt.Choice("arg"+string(rune('0'+i)), len(zzC09FmtInts))]
		*ints = append(*ints, x)
		return slip.Fixnum(x)
	case 1:
		return slip.String("ab")
	case 2:
		return zzC09Quote(slip.List{slip.Fixnum(1), slip.Fixnum(2)})
	case 4:
		return slip.Character('a')
	case 5:
		return slip.DoubleFloat(1.5)
	case 6:
		return slip.Fixnum(7)
	}
	return nil
}

func zzC09FmtCtl(n int) []byte {
	ctl := vrt.Bytes("ctl", n)
	for i := range ctl {
		vrt.Assume(zzC09FmtTab[ctl[i]] == 1)
	}
	return ctl
}

// VerifC09Format: (format nil <control> args...) with a control string of n
// symbolic bytes over the directive alphabet (the first byte is `~` when
// tilde != 0) and the arguments selected by k0, k1 (-1: absent).
func VerifC09Format(n, tilde, k0, k1 int) {
	ctl := zzC09FmtCtl(n)
	if tilde != 0 && 0 < n {
		vrt.Assume(ctl[0] == '~')
	}
	var ints []int64
	form := slip.List{slip.Symbol("format"), nil, slip.String(ctl)}
	if 0 <= k0 {
		form = append(form, zzC09FmtArg(0, k0, &ints))
		if 0 <= k1 {
			form = append(form, zzC09FmtArg(1, k1, &ints))
		}
	}
	zzC09FmtCarves(ctl, k0, k1, ints)
	zzC09Streams()
	zzC09Guarded(slip.NewScope(), form, zzC09FmtDecis)
}

// VerifC09FormatRadix: "~" + (n-2) symbolic bytes + "r" with the concrete
// integer zzC09FmtGrid[g] as the only argument.
func VerifC09FormatRadix(n, g int) {
	ctl := zzC09FmtCtl(n)
	vrt.Assume(ctl[0] == '~' && ctl[n-1] == 'r')
	for i := range ctl {
		// the only argument is the one of the radix directive (a `v` parameter
		// would consume it as a count: covered by VerifC09Format)
		vrt.Assume(ctl[i] != 'v')
	}
	form := slip.List{slip.Symbol("format"), nil, slip.String(ctl), slip.Fixnum(zzC09FmtGrid[g])}
	zzC09RadixCarves(ctl, zzC09FmtGrid[g])
	zzC09Streams()
	zzC09Guarded(slip.NewScope(), form, zzC09FmtDecis)
}

// zzC09FmtScan walks a control string with the simple model of the flat
// directives: after `~` a prefix of parameters and modifiers (: @ , # v 'c and
// decimal digits), then the directive character.  Every `v` and every
// directive of zzC09FmtTakes consumes the next argument.  It reports
//
//	missing  a `v` parameter or an argument-consuming directive is met when
//	         no argument is left (the recorded index-out-of-range family), and
//	vhuge    a `v` parameter consumed a symbolic fixnum argument: bit i set
//	         when argument i was consumed by a `v`.
//
// The scan stops (nothing reported beyond that point) at the first directive
// outside the simple model (* ? ( ) [ ] { } < > / ; ^), at a prefix the real
// parser rejects (second `:` or `@`, `,` after a modifier), and at a directive
// that raises a condition for the argument kind it gets (c without a
// character, $ r without a number, p r without an argument).
func zzC09FmtScan(ctl []byte, kinds []int, argInt []int64) (missing bool, vargs int, zeroInc bool) {
	argPos := 0
	i := 0
	for i < len(ctl) {
		if ctl[i] != '~' {
			i++
			continue
		}
		i++
		colon, at := false, false
		var pv []int64 // parameter values
		var pk []int   // 0 omitted (or nil argument), 1 integer, 2 character
		var d byte
		for i < len(ctl) {
			b := ctl[i]
			i++
			if b == ':' {
				if colon {
					return
				}
				colon = true
				continue
			}
			if b == '@' {
				if at {
					return
				}
				at = true
				continue
			}
			if b == ',' {
				if colon || at {
					return
				}
				if ctl[i-2] == '~' || ctl[i-2] == ',' {
					pv = append(pv, 0)
					pk = append(pk, 0)
				}
				continue
			}
			if b == '#' {
				pv = append(pv, int64(len(kinds)-argPos))
				pk = append(pk, 1)
				continue
			}
			if b == 'v' {
				if argPos < 0 {
					pv = append(pv, 0)
					pk = append(pk, 0)
					continue
				}
				if len(kinds) <= argPos {
					missing = true
					return
				}
				switch kinds[argPos] {
				case 0, 6:
					pv = append(pv, argInt[argPos])
					pk = append(pk, 1)
				case 3:
					pv = append(pv, 0)
					pk = append(pk, 0)
				case 4:
					pv = append(pv, 0)
					pk = append(pk, 2)
				default:
					pv = append(pv, 0)
					pk = append(pk, 3) // rejected by every directive that looks at it
				}
				vargs |= 1 << argPos
				argPos++
				continue
			}
			if b == '\'' {
				// a character parameter: the byte after the quote, whatever it
				// is, plus the bytes up to the next directive byte (a
				// character name); only a single byte is inside the simple model
				if len(ctl) <= i {
					return
				}
				i++
				if i < len(ctl) && zzC09FmtDirByte[ctl[i]] == 0 {
					return
				}
				pv = append(pv, 0)
				pk = append(pk, 2)
				continue
			}
			if b == '-' || ('0' <= b && b <= '9') {
				// a number token runs up to the next directive byte and must
				// be a decimal integer
				j := i - 1
				for i < len(ctl) && zzC09FmtDirByte[ctl[i]] == 0 {
					i++
				}
				k := j
				if ctl[k] == '-' {
					k++
				}
				if k == i {
					return
				}
				var x int64
				for ; k < i; k++ {
					if ctl[k] < '0' || '9' < ctl[k] {
						return
					}
					x = x*10 + int64(ctl[k]-'0')
				}
				if ctl[j] == '-' {
					x = -x
				}
				pv = append(pv, x)
				pk = append(pk, 1)
				continue
			}
			d = b
			break
		}
		switch zzC09FmtClass[d] {
		case 1: // consumes an argument without looking whether one is left
			if argPos < 0 {
				break
			}
			if len(kinds) <= argPos {
				missing = true
				return
			}
			k := kinds[argPos]
			if d == 'c' && k != 4 {
				return
			}
			if d == '$' && k != 0 && k != 5 && k != 6 {
				return
			}
			if (d == 'a' || d == 's') && 0 < len(pv) {
				// ~mincol,colinc A: a zero column increment never reaches mincol
				if 1 < len(pv) && pk[0] == 1 && pk[1] == 1 && pv[1] == 0 && (len(pv) < 3 || pk[2] <= 1) && (len(pv) < 4 || pk[3] == 0 || pk[3] == 2) &&
					int64(zzC09FmtOutLen(k, argInt[argPos], d, colon)) < pv[0] {
					zeroInc = true
				}
				return // other parameter combinations: outside the simple model
			}
			argPos++
		case 2: // checks for its argument itself
			if d == 'p' && colon {
				argPos--
			}
			if argPos < 0 || len(kinds) <= argPos {
				return
			}
			if d == 'r' && kinds[argPos] != 0 && kinds[argPos] != 6 {
				return
			}
			argPos++
		case 3: // takes no argument
		case 4: // ~* without a parameter moves the argument pointer
			if 0 < len(pv) || (colon && at) {
				return
			}
			if colon {
				argPos--
			} else if at {
				argPos = 0
			} else {
				argPos++
			}
		case 5: // ~? takes a control string and (without @) an argument list
			if argPos < 0 {
				return
			}
			if argPos < len(kinds) {
				if kinds[argPos] != 1 {
					return
				}
				argPos++ // the pool string "ab" contains no directive
			}
			if !at {
				if argPos < len(kinds) && kinds[argPos] != 2 {
					return
				}
				argPos++
			}
		case 6: // ~/name/ with the name of an existing function
			if len(ctl) < i+2 || ctl[i+1] != '/' || zzC09FmtFunc1[ctl[i]] == 0 {
				return
			}
			if 0 <= argPos && len(kinds) <= argPos {
				missing = true
			}
			return // the call itself raises a condition (wrong argument types)
		default:
			return
		}
	}
	return
}

// zzC09FmtOutLen: number of bytes ~A / ~S print for a pool argument.
func zzC09FmtOutLen(kind int, x int64, d byte, colon bool) int {
	switch kind {
	case 0, 6:
		return len(strconv.FormatInt(x, 10))
	case 1:
		if d == 's' {
			return 4
		}
		return 2
	case 2:
		return 5
	case 3:
		if colon {
			return 2
		}
		return 3
	case 4:
		if d == 's' {
			return 3
		}
		return 1
	}
	return 3
}

// zzC09FmtDirByte: the bytes that end a character parameter (the x entries of
// dirScanMap restricted to the harness alphabet plus the rest of ASCII the
// real table marks).
var zzC09FmtDirByte = zzC09MakeTab("\n$%&()*,/:<=>?@ABCDEFGIOPRSTWX[]^abcdefgioprstwx{|}~")

// zzC09FmtFunc1: one-byte names of existing functions within the alphabet.
var zzC09FmtFunc1 = zzC09MakeTab("<>*-")

// zzC09FmtClass: 1 = directive consuming an argument unchecked, 2 = checked,
// 3 = no argument, 0 = outside the simple model.
var zzC09FmtClass = zzC09FmtClasses()

func zzC09FmtClasses() (tab [256]uint8) {
	for _, b := range []byte("asdboxcwefg$") {
		tab[b] = 1
	}
	for _, b := range []byte("rp") {
		tab[b] = 2
	}
	for _, b := range []byte("%&|~t\n^") {
		tab[b] = 3
	}
	tab['*'] = 4
	tab['?'] = 5
	tab['/'] = 6
	return
}

// zzC09TabAlpha: parameter and modifier bytes of the tabulate directive.
const zzC09TabAlpha = "019,@:v#-"

var zzC09TabTab = zzC09MakeTab(zzC09TabAlpha)

// zzC09TabInts: the fixnum arguments of C09.format.tab.
var zzC09TabInts = []int64{0, 3, -1, 1 << 40}

// VerifC09FormatTab: the column arithmetic of ~T needs five bytes (~,0@T):
// control string = prefix text + "~" + n symbolic bytes over 0 1 9 , @ : v # - +
// "t"; prefix 0 "", 1 "ab", 2 "a" newline "bcd"; g < 0: no argument and no v
// in the string; g >= 0: the two fixnum arguments zzC09TabInts[g/4] and
// zzC09TabInts[g%4], and at least one v.
func VerifC09FormatTab(n, prefix, g int) {
	mid := vrt.Bytes("ctl", n)
	nv := 0
	for i := range mid {
		vrt.Assume(zzC09TabTab[mid[i]] == 1)
		if mid[i] == 'v' {
			nv++
		}
	}
	ctl := []byte([]string{"", "ab", "a\nbcd"}[prefix] + "~")
	ctl = append(ctl, mid...)
	ctl = append(ctl, 't')
	var ints []int64
	form := slip.List{slip.Symbol("format"), nil, slip.String(ctl)}
	if g < 0 {
		vrt.Assume(nv == 0)
	} else {
		vrt.Assume(0 < nv)
		ints = []int64{zzC09TabInts[g/4], zzC09TabInts[g%4]}
		form = append(form, slip.Fixnum(ints[0]), slip.Fixnum(ints[1]))
	}
	zzC09TabCarves(mid, ints, prefix)
	zzC09Streams()
	zzC09Guarded(slip.NewScope(), form, zzC09FmtDecis)
}

// zzC09TabCarves: regions of the recorded findings of C09.format.tab, from an
// independent parse of the parameter part: parameters are separated by
// commas, a number token runs over digits - v # up to the next , : @ (and must
// be a decimal integer), v takes the next argument, # the number of arguments
// left; : and @ may appear once each and no comma may follow them.
func zzC09TabCarves(mid []byte, ints []int64, prefix int) {
	var vals []int64 // parameter values
	var has []bool   // false: omitted parameter
	colon, at := false, false
	argPos := 0
	missing, valid, huge := false, true, false
	i := 0
	for i < len(mid) && valid && !missing {
		b := mid[i]
		switch {
		case b == ':':
			if colon {
				valid = false
			}
			colon = true
			i++
		case b == '@':
			if at {
				valid = false
			}
			at = true
			i++
		case b == ',':
			if colon || at {
				valid = false
			}
			if i == 0 || mid[i-1] == ',' {
				vals = append(vals, 0)
				has = append(has, false)
			}
			i++
		case b == '#':
			vals = append(vals, int64(len(ints)-argPos))
			has = append(has, true)
			i++
		case b == 'v':
			if len(ints) <= argPos {
				missing = true
			} else {
				vals = append(vals, ints[argPos])
				has = append(has, true)
				if zzC09Huge < ints[argPos] {
					huge = true
				}
				argPos++
			}
			i++
		default:
			// a number token: - and digits, ended by , : @ (v and # inside
			// the token make it unparsable)
			j := i
			for j < len(mid) && mid[j] != ',' && mid[j] != ':' && mid[j] != '@' {
				j++
			}
			neg := mid[i] == '-'
			k := i
			if neg {
				k++
			}
			var x int64
			if k == j {
				valid = false
			}
			for ; k < j; k++ {
				if mid[k] < '0' || '9' < mid[k] {
					valid = false
					break
				}
				x = x*10 + int64(mid[k]-'0')
			}
			if neg {
				x = -x
			}
			vals = append(vals, x)
			has = append(has, true)
			i = j
		}
	}
	vrt.Carve("C09-format-missing-argument", missing)
	colnum, colinc := int64(0), int64(1)
	if 0 < len(vals) && has[0] {
		colnum = vals[0]
	}
	if 1 < len(vals) && has[1] {
		colinc = vals[1]
	}
	ok := valid && !missing && 0 <= colnum && 0 <= colinc
	from := []int64{0, 2, 3}[prefix]
	// colinc 0: from/colinc (with @ always; without @ when the target column
	// colnum*colinc = 0 lies before the current column)
	vrt.Carve("C09-format-tab-zero-colinc", ok && colinc == 0 && (at || 0 < from))
	// a column or increment above 2^31 taken from an argument: padding loop
	vrt.Carve("C09-format-parameter-unbounded", ok && huge)
}

// zzC09FmtCarves: regions of the recorded findings of C09.format.
func zzC09FmtCarves(ctl []byte, k0, k1 int, ints []int64) {
	var kinds []int
	var argInt []int64
	j := 0
	for _, k := range []int{k0, k1} {
		if k < 0 {
			break
		}
		kinds = append(kinds, k)
		switch k {
		case 0:
			argInt = append(argInt, ints[j])
			j++
		case 6:
			argInt = append(argInt, 7)
		default:
			argInt = append(argInt, 0)
		}
	}
	missing, vargs, zeroInc := zzC09FmtScan(ctl, kinds, argInt)
	vrt.Carve("C09-format-missing-argument", missing)
	// a count/width parameter taken from a fixnum argument above 2^31
	huge := false
	for a := 0; a < len(kinds); a++ {
		if kinds[a] == 0 && vargs&(1<<a) != 0 && zzC09Huge < argInt[a] {
			huge = true
		}
	}
	vrt.Carve("C09-format-parameter-unbounded", huge)
	// format never returns: a zero column increment (~5,0A), or ~{~} (an
	// iteration whose body consumes nothing) over a non-empty list
	iter := len(ctl) == 4 && ctl[0] == '~' && ctl[1] == '{' && ctl[2] == '~' && ctl[3] == '}' && k0 == 2
	vrt.Carve("C09-format-never-returns", zeroInc || iter)
}

// zzC09RadixCarves: regions of the recorded findings of C09.format.radix.
func zzC09RadixCarves(ctl []byte, x int64) {
	// walk the directives: those that take no argument (% & | ~ t ^ newline)
	// are passed over; the first other one must be the radix directive, its
	// modifiers decide (with @ it prints Roman numerals)
	plain := false
	i := 0
walk:
	for i < len(ctl) {
		if ctl[i] != '~' {
			i++
			continue
		}
		i++
		at := false
		for i < len(ctl) {
			b := ctl[i]
			i++
			if b == '@' {
				at = true
				continue
			}
			if b == ':' || b == ',' || b == '#' || b == '-' || ('0' <= b && b <= '9') {
				continue
			}
			if b == '\'' && i < len(ctl) {
				i++ // a character parameter: the byte after the quote
				continue
			}
			if b == 'r' {
				plain = !at
				break walk
			}
			if zzC09FmtClass[b] == 3 {
				continue walk
			}
			break walk
		}
	}
	vrt.Carve("C09-format-radix-thousands", plain && x != 0 && x%1000 == 0)
}

// ---- common runner ----

const (
	zzC09Steps     = 400000 // SSA instructions per guarded evaluation
	zzC09Decisions = 150    // symbolic decisions per guarded evaluation (index, tuple)
	zzC09FmtDecis  = 450    // the same for format: a count parsed from symbolic digits makes every loop test a decision
	zzC09Small     = 8      // integers in (zzC09Small, 2^31] are not explored (see zzC09Gap)
	zzC09Huge      = int64(1) << 31
)

// zzC09Guarded evaluates form under the guard with the given budget of
// symbolic decisions.
func zzC09Guarded(scope *slip.Scope, form slip.Object, decisions int) {
	class := zzC09Value
	cut := zzC09Guard(zzC09Steps, decisions, func() { class = zzC09Eval(scope, form) })
	vrt.Reach("evaluated")
	vrt.Assert(cut != 1, "allocation whose size can exceed 2^31 elements")
	if cut == 2 {
		// an allocation of 65..2^31 elements: allowed, not explored further
		vrt.Reach("large-allocation-cut")
		return
	}
	if cut == 3 || cut == 4 {
		// a fault raised before the budget ran out (e.g. while the wrapped
		// panic's stack is being printed) is a fault all the same
		vrt.Assert(vrt.Faults() <= 0, "Go run-time fault instead of a Lisp condition")
		// every integer of the case is at most zzC09Small or above 2^31 (or
		// negative), sequences have at most 4 elements: an evaluation that
		// outruns the budget is bounded only by such an integer.  The native
		// replay of the model runs under a 10 s / 2 GiB watchdog and only a
		// native hang or unbounded allocation confirms it.
		vrt.Assert(false, "evaluation does not finish: work bounded only by an integer argument (hang / unbounded allocation)")
		return
	}
	if class == zzC09Value {
		vrt.Reach("value")
	}
	zzC09Check(class)
}

// zzC09Gap assumes x outside (zzC09Small, 2^31]: sizes and counts in that
// range are legitimate work for the code under test (allocation and loops
// proportional to the argument) which the engine would unroll value by value;
// they behave like "larger than every sequence of the case" for indexes.
func zzC09Gap(x int64) {
	vrt.Assume(uint64(x-(zzC09Small+1)) > uint64(zzC09Huge-(zzC09Small+1)))
}

// ---- (c) index arithmetic ----

// zzC09IdxRow is one call shape.  Placeholders (symbols) in tmpl: S the
// sequence under test, U a second sequence of the same type (length 2), A B C
// symbolic fixnums (full range), X an element of S, Y another element value.
// kinds: which sequence types apply (l list, v vector, s string, b bit-vector);
// "-" = no sequence (one case).
type zzC09IdxRow struct {
	tmpl  string
	kinds string
}

var zzC09IdxRows = []zzC09IdxRow{
	{"(subseq S A)", "lvsb"},                                                      // 0
	{"(subseq S A B)", "lvsb"},                                                    // 1
	{"(nth A S)", "l"},                                                            // 2
	{"(nthcdr A S)", "l"},                                                         // 3
	{"(butlast S A)", "l"},                                                        // 4
	{"(nbutlast S A)", "l"},                                                       // 5
	{"(last S A)", "l"},                                                           // 6
	{"(elt S A)", "lvsb"},                                                         // 7
	{"(aref S A)", "vb"},                                                          // 8
	{"(svref S A)", "v"},                                                          // 9
	{"(char S A)", "s"},                                                           // 10
	{"(schar S A)", "s"},                                                          // 11
	{"(bit S A)", "b"},                                                            // 12
	{"(sbit S A)", "b"},                                                           // 13
	{"(fill S Y :start A :end B)", "lvsb"},                                        // 14
	{"(replace S U :start1 A :end1 B)", "lvsb"},                                   // 15
	{"(replace S U :start2 A :end2 B)", "lvsb"},                                   // 16
	{"(search U S :start1 A :end1 B)", "lvs"},                                     // 17
	{"(search U S :start2 A :end2 B)", "lvs"},                                     // 18
	{"(mismatch S U :start1 A :end1 B)", "lvsb"},                                  // 19
	{"(mismatch S U :start2 A :end2 B)", "lvsb"},                                  // 20
	{"(position X S :start A :end B)", "lvs"},                                     // 21
	{"(position X S :start A :end B :from-end t)", "lvs"},                         // 22
	{"(find X S :start A :end B)", "lvs"},                                         // 23
	{"(count X S :start A :end B)", "lvsb"},                                       // 24
	{"(remove X S :start A :end B)", "lvs"},                                       // 25
	{"(remove X S :count A)", "lvs"},                                              // 26
	{"(delete X S :start A :end B)", "lvs"},                                       // 27
	{"(delete X S :count A)", "lvs"},                                              // 28
	{"(substitute Y X S :start A :end B)", "lvs"},                                 // 29
	{"(substitute Y X S :count A)", "lvs"},                                        // 30
	{"(nsubstitute Y X S :start A :end B)", "lvs"},                                // 31
	{"(nsubstitute Y X S :count A)", "lvs"},                                       // 32
	{"(position-if (function numberp) S :start A :end B)", "lv"},                  // 33
	{"(find-if (function numberp) S :start A :end B)", "lv"},                      // 34
	{"(count-if (function numberp) S :start A :end B)", "lv"},                     // 35
	{"(remove-if (function numberp) S :start A :end B)", "lv"},                    // 36
	{"(remove-if (function numberp) S :count A)", "lv"},                           // 37
	{"(delete-if (function numberp) S :start A :end B)", "lv"},                    // 38
	{"(substitute-if Y (function numberp) S :start A :end B)", "lv"},              // 39
	{"(nsubstitute-if Y (function numberp) S :start A :end B)", "lv"},             // 40
	{"(remove-duplicates S :start A :end B)", "lvs"},                              // 41
	{"(delete-duplicates S :start A :end B)", "lvs"},                              // 42
	{"(reduce (function list) S :start A :end B)", "lv"},                          // 43
	{"(make-list A)", "-"},                                                        // 44
	{"(make-string A)", "-"},                                                      // 45
	{"(make-array A)", "-"},                                                       // 46
	{"(make-array (list A B))", "-"},                                              // 47
	{"(make-array A :element-type (quote bit))", "-"},                             // 48
	{"(make-sequence (quote list) A)", "-"},                                       // 49
	{"(make-sequence (quote string) A)", "-"},                                     // 50
	{"(make-sequence (quote vector) A)", "-"},                                     // 51
	{"(string-upcase S :start A :end B)", "s"},                                    // 52
	{"(string-downcase S :start A :end B)", "s"},                                  // 53
	{"(string-capitalize S :start A :end B)", "s"},                                // 54
	{"(nstring-upcase S :start A :end B)", "s"},                                   // 55
	{"(nstring-downcase S :start A :end B)", "s"},                                 // 56
	{"(nstring-capitalize S :start A :end B)", "s"},                               // 57
	{"(string= S U :start1 A :end1 B)", "s"},                                      // 58
	{"(string= S U :start2 A :end2 B)", "s"},                                      // 59
	{"(string< S U :start1 A :end1 B)", "s"},                                      // 60
	{"(string< S U :start2 A :end2 B)", "s"},                                      // 61
	{"(string-equal S U :start1 A :end1 B)", "s"},                                 // 62
	{"(string-lessp S U :start2 A :end2 B)", "s"},                                 // 63
	{"(string/= S U :start1 A :end2 B)", "s"},                                     // 64
	{"(string> S U :start1 A :end1 B)", "s"},                                      // 65
	{"(string-not-equal S U :start1 A :end1 B)", "s"},                             // 66
	{"(parse-integer \"1234\" :start A :end B)", "-"},                             // 67
	{"(parse-integer S :radix A)", "s"},                                           // 68
	{"(read-from-string S nil nil :start A :end B)", "s"},                         // 69
	{"(write-string S *standard-output* :start A :end B)", "s"},                   // 70
	{"(write-line S *standard-output* :start A :end B)", "s"},                     // 71
	{"(write-sequence S *standard-output* :start A :end B)", "ls"},                // 72
	{"(make-string-input-stream S A B)", "s"},                                     // 73
	{"(with-input-from-string (zzs S :start A :end B) (read-char zzs nil))", "s"}, // 74
	{"(ash A B)", "-"},                                                            // 75
	{"(dpb -3 (byte 2 A) 5)", "-"},                                                // 76
	{"(gi:string-repeat \"ab\" A)", "-"},                                          // 77
	{"(logbitp A B)", "-"},                                                        // 78
	{"(ldb (byte A 2) -5)", "-"},                                                  // 79
	{"(dpb -3 (byte A 2) 5)", "-"},                                                // 80
	{"(ldb (byte 2 A) -5)", "-"},                                                  // 81
	{"(mask-field (byte A 2) -5)", "-"},                                           // 82
	{"(deposit-field -3 (byte 2 A) 5)", "-"},                                      // 83
	{"(code-char A)", "-"},                                                        // 84
	{"(digit-char A B)", "-"},                                                     // 85
	{"(digit-char-p #\\a A)", "-"},                                                // 86
	{"(make-string A :initial-element #\\a)", "-"},                                // 87
	{"(make-list A :initial-element 1)", "-"},                                     // 88
	{"(adjust-array S A)", "vb"},                                                  // 89
	{"(row-major-aref S A)", "vb"},                                                // 90
	{"(array-dimension S A)", "vb"},                                               // 91
	{"(array-in-bounds-p S A)", "vb"},                                             // 92
	{"(array-row-major-index S A)", "vb"},                                         // 93
	{"(aref (make-array (quote (2 2))) A B)", "-"},                                // 94
	{"(array-row-major-index (make-array (quote (2 2))) A B)", "-"},               // 95
	{"(setf (aref S A) Y)", "vb"},                                                 // 96
	{"(setf (elt S A) Y)", "lvb"},                                                 // 97
	{"(setf (nth A S) Y)", "l"},                                                   // 98
	{"(setf (subseq S A B) U)", "lvb"},                                            // 99
	{"(make-string-input-stream S A)", "s"},                                       // 100
	{"(setf (bit S A) Y)", "b"},                                                   // 101
	{"(floor A B)", "-"},                                                          // 102
	{"(ceiling A B)", "-"},                                                        // 103
	{"(truncate A B)", "-"},                                                       // 104
	{"(round A B)", "-"},                                                          // 105
	{"(mod A B)", "-"},                                                            // 106
	{"(rem A B)", "-"},                                                            // 107
	{"(mask-field (byte 2 A) -5)", "-"},                                           // 108
	{"(gi:make-octets A)", "-"},                                                   // 109
	{"(nthcdr A (quote (1 2 . 3)))", "-"},                                         // 110
	{"(butlast (quote (1 2 . 3)) A)", "-"},                                        // 111
	{"(random A)", "-"},                                                           // 112
	{"(deposit-field -3 (byte A 2) 5)", "-"},                                      // 113
	{"(vector-push-extend Y (make-array 2 :fill-pointer A))", "-"},                // 114
	{"(make-array 2 :fill-pointer A)", "-"},                                       // 115
	{"(setf (fill-pointer (make-array 3 :fill-pointer 1)) A)", "-"},               // 116
	{"(make-hash-table :size A)", "-"},                                            // 117
	{"(nth-value A (values 1 2))", "-"},                                           // 118
	{"(list-length S)", "l"},                                                      // 119
	{"(string-left-trim U S)", "s"},                                               // 120
	{"(concatenate (quote string) S U)", "s"},                                     // 121
	{"(map-into S (function 1+) U)", "lv"},                                        // 122
	{"(boole boole-and A B)", "-"},                                                // 123
	{"(ldb-test (byte A 2) -5)", "-"},                                             // 124
	{"(float-sign 1.0 2.0)", "-"},                                                 // 125
	{"(byte-size (byte A B))", "-"},                                               // 126
	{"(last (quote (1 2 . 3)) A)", "-"},                                           // 127
	{"(peek-char nil (make-string-input-stream S A))", "s"},                       // 128
	{"(file-position (make-string-input-stream S) A)", "s"},                       // 129
	{"(subseq S A A)", "lvsb"},                                                    // 130
	{"(subseq S A nil)", "lvsb"},                                                  // 131
	{"(bit-and S U)", "b"},                                                        // 132
	{"(bit-not S)", "b"},                                                          // 133
	{"(bit-xor S U S)", "b"},                                                      // 134
	{"(make-string A :initial-element #\\é)", "-"},                                // 135
	// multi-byte strings (byte offsets versus character indexes), 136..
	{"(count #\\a \"éa\" :start A)", "-"},                       // 136
	{"(string-upcase \"éa\" :start A :end B)", "-"},             // 137
	{"(find #\\a \"éa\" :start A :end B)", "-"},                 // 138
	{"(position #\\a \"éa\" :start A :end B)", "-"},             // 139
	{"(subseq \"éa\" A B)", "-"},                                // 140
	{"(string-downcase \"éa\" :start A :end B)", "-"},           // 141
	{"(string-capitalize \"éa\" :start A :end B)", "-"},         // 142
	{"(nstring-upcase (copy-seq \"éa\") :start A :end B)", "-"}, // 143
	{"(remove #\\a \"éa\" :start A :end B)", "-"},               // 144
	{"(char \"éa\" A)", "-"},                                    // 145
	{"(parse-integer \"é12\" :start A :end B)", "-"},            // 146
	{"(string= \"éa\" \"éb\" :start1 A :end1 B)", "-"},          // 147
	{"(count #\\a \"éa\" :start A :end B)", "-"},                // 148
	// empty sequences given to the mapping/merging functions (no integer), 149..
	{"(merge (quote list) nil (quote (1)) (function <))", "-"}, // 149
	{"(map (quote list) (function 1+) nil)", "-"},              // 150
	{"(reduce (function +) nil)", "-"},                         // 151
	{"(gi:pretty-print (quote (let)) nil)", "-"},               // 152
}

const zzC09KindChars = "lvsb"

// zzC09Seq builds the sequence literal of a kind and length by evaluating
// Lisp text (concrete).
func zzC09Seq(scope *slip.Scope, kind byte, n int) slip.Object {
	var src string
	switch kind {
	case 'l':
		src = []string{"nil", "(list 1)", "(list 1 2)", "(list 1 2 3)", "(list 1 2 3 2)"}[n]
	case 'v':
		src = []string{"(vector)", "(vector 1)", "(vector 1 2)", "(vector 1 2 3)", "(vector 1 2 3 2)"}[n]
	case 's':
		src = []string{"(copy-seq \"\")", "(copy-seq \"a\")", "(copy-seq \"ab\")", "(copy-seq \"abc\")", "(copy-seq \"abcb\")"}[n]
	default:
		src = []string{"(make-array 0 :element-type 'bit)", "(copy-seq #*1)", "(copy-seq #*10)", "(copy-seq #*101)", "(copy-seq #*1011)"}[n]
	}
	return slip.ReadString(src, scope).Eval(scope, nil)
}

// zzC09Subst replaces the placeholder symbols in a form read from a template.
func zzC09Subst(obj slip.Object, env map[string]slip.Object) slip.Object {
	switch to := obj.(type) {
	case slip.Symbol:
		if v, has := env[string(to)]; has {
			return v
		}
	case slip.List:
		out := make(slip.List, len(to))
		for i := range to {
			out[i] = zzC09Subst(to[i], env)
		}
		return out
	}
	return obj
}

func zzC09HasSym(obj slip.Object, name string) bool {
	switch to := obj.(type) {
	case slip.Symbol:
		return string(to) == name
	case slip.List:
		for i := range to {
			if zzC09HasSym(to[i], name) {
				return true
			}
		}
	}
	return false
}

// VerifC09Index: row of zzC09IdxRows, sequence kind (index into "lvsb") and
// length 0..3; A, B, C are symbolic fixnums over the full int64 range.
func VerifC09Index(row, kind, n int) {
	r := zzC09IdxRows[row]
	zzC09Streams()
	scope := slip.NewScope()
	code := slip.ReadString(r.tmpl, scope)
	tmpl := code[0]
	env := map[string]slip.Object{"X": slip.Fixnum(2), "Y": slip.Fixnum(9)}
	if r.kinds != "-" {
		k := zzC09KindChars[kind]
		applies := false
		for i := 0; i < len(r.kinds); i++ {
			if r.kinds[i] == k {
				applies = true
			}
		}
		if !applies {
			vrt.Reach("evaluated")
			return
		}
		env["S"] = zzC09Quote(zzC09Seq(scope, k, n))
		env["U"] = zzC09Quote(zzC09Seq(scope, k, 2))
		switch k {
		case 's':
			env["X"] = slip.Character('b')
			env["Y"] = slip.Character('z')
		case 'b':
			env["X"] = slip.Fixnum(1)
			env["Y"] = slip.Fixnum(0)
		default:
			env["X"] = slip.Fixnum(2)
			env["Y"] = slip.Fixnum(9)
		}
	}
	var ints []int64
	for _, name := range []string{"A", "B", "C"} {
		if zzC09HasSym(tmpl, name) {
			x := vrt.Int64(name)
			zzC09Gap(x)
			ints = append(ints, x)
			env[name] = slip.Fixnum(x)
		}
	}
	if row == 75 {
		// (ash A B): a left shift by more than 8 and at most 2^37 bits is a
		// legitimate bignum result (the engine's math/big model does not shift
		// by symbolic amounts); above 2^37 bits the result has more than 2^31
		// words
		vrt.Assume(ints[1] <= zzC09Small || 1<<37 < ints[1])
	}
	form := zzC09Subst(tmpl, env)
	zzC09IdxCarves(row, kind, n, ints)
	zzC09Guarded(scope, form, zzC09Decisions)
}

// zzC09IdxCarves: regions of the recorded findings of C09.index, by family:
// (row of zzC09IdxRows, sequence kind, length, region over A B).
func zzC09IdxCarves(row, kind, n int, ints []int64) {
	var a, b int64
	if 0 < len(ints) {
		a = ints[0]
	}
	if 1 < len(ints) {
		b = ints[1]
	}
	ln := int64(n)
	// :start/:end (subseq: start end) both inside the sequence, start > end
	startGtEnd := false
	switch row {
	// (position find position-if find-if were repaired by 2b926e5, subseq by 7362abc)
	case 17: // search: bounds of the first sequence (length 2)
		startGtEnd = 0 <= b && b <= 2 && b < a
	case 18: // search: bounds of the second sequence
		startGtEnd = 0 <= b && b <= ln && b < a
	}
	vrt.Carve("C09-index-start-greater-than-end", startGtEnd)
	// fixnum division by a zero divisor
	divZero := false
	if row == 112 { // (random 0); floor ceiling truncate round rem were repaired in d4bb7f0
		divZero = a == 0
	}
	vrt.Carve("C09-integer-divide-by-zero", divZero)
	// a negative size, count or byte-specifier field
	negative := false
	switch row {
	case 46, 77: // (last with a negative count was repaired by 13728c4)
		negative = a < 0
	case 89:
		negative = a < 0 && (kind == 1 || kind == 3)
	case 80, 82, 113: // dpb mask-field deposit-field with a negative byte size never return
		negative = a < 0
	case 79: // (ldb (byte size 2) x): make([]byte, size/8+1)
		negative = a <= -16
	case 76, 83, 108: // dpb deposit-field mask-field with a byte position <= -8: SetBit index
		negative = a <= -8
	}
	vrt.Carve("C09-negative-size", negative)
	// a size above 2^31 is allocated (or looped over) without a limit
	huge := false
	switch row {
	case 44, 46, 48, 49, 50, 51, 76, 77, 79, 80, 82, 83, 87, 88, 108, 109, 113, 135:
		huge = zzC09Huge < a
	case 89:
		huge = zzC09Huge < a && kind == 3
	case 75: // (ash x count): a bignum of count bits
		huge = a != 0 && 1<<37 < b
	}
	vrt.Carve("C09-size-unbounded", huge)
	// invalid bounds, or nothing to read between them (end of file: the default
	// eof-error-p of the row is nil, so only the bounds panic applies to it;
	// row 69 passes eof-error-p nil: start == len is rejected as a bound)
	be := b // a negative :end means the end of the string
	if row == 69 && b < 0 {
		be = ln
	}
	vrt.Carve("C09-plain-string-panic", row == 69 && (a < 0 || ln <= a || ln < be || be < a))
	vrt.Carve("C09-empty-sequence-type-assertion", (row == 43 && kind == 0 && n == 0) || row == 149 || row == 150 || row == 151)
	// "éa": 2 characters in 3 bytes; bounds are checked against the byte
	// length and then applied to the characters
	multibyte := false
	switch row {
	case 137, 141, 142, 143: // (count was repaired by 1d9b6a7)
		multibyte = b == 3 && 0 <= a && a <= 3
	}
	vrt.Carve("C09-multibyte-string-bounds", multibyte)
}

// ---- (d) type tuples ----

// zzC09PoolSize is the number of representative argument objects.
const zzC09PoolSize = 12

// zzC09PoolName documents the pool (index = object kind).
var zzC09PoolName = [zzC09PoolSize]string{"fixnum", "bignum", "ratio", "double-float", "string", "symbol", "keyword",
	"character", "list", "vector", "hash-table", "nil"}

// zzC09PoolObj builds pool object k.  The fixnum is symbolic (full range) when
// sym is set, 3 otherwise.
func zzC09PoolObj(scope *slip.Scope, k int, name string, sym bool) slip.Object {
	switch k {
	case 0:
		if sym {
			return slip.Fixnum(vrt.Int64(name))
		}
		return slip.Fixnum(3)
	case 1:
		return slip.ReadString("1180591620717411303424", scope)[0] // 2^70
	case 2:
		return slip.ReadString("1/3", scope)[0]
	case 3:
		return slip.DoubleFloat(1.5)
	case 4:
		return slip.String("ab")
	case 5:
		return slip.Symbol("zzc09sym")
	case 6:
		return slip.Symbol(":zzc09key")
	case 7:
		return slip.Character('a')
	case 8:
		return slip.List{slip.Fixnum(1), slip.Fixnum(2)}
	case 9:
		return slip.ReadString("(vector 1 2)", scope).Eval(scope, nil)
	case 10:
		return slip.ReadString("(make-hash-table)", scope).Eval(scope, nil)
	}
	return nil
}

// zzC09ArgForm: the form that makes a function receive obj: obj itself when
// the function does not evaluate that argument (special forms and macros see
// the raw object) or when it evaluates to itself, (quote obj) for symbols and
// lists.
func zzC09ArgForm(obj slip.Object, skipEval bool) slip.Object {
	if skipEval {
		return obj
	}
	switch to := obj.(type) {
	case slip.List:
		return zzC09Quote(to)
	case slip.Symbol:
		if 0 < len(to) && to[0] == ':' {
			return to
		}
		return zzC09Quote(to)
	}
	return obj
}

// zzC09TupleExcluded lists the built-ins VerifC09Tuple does not call, with
// the reason (the first three groups are the exclusions of the C04 arity check).
var zzC09TupleExcluded = map[string]string{
	// change the state of the checking process or of the machine
	"gi:clearenv":    "clears the environment of the checking process",
	"gi:setenv":      "changes the environment of the checking process",
	"gi:unsetenv":    "changes the environment of the checking process",
	"gi:send-signal": "sends a signal to a process",
	"gi:run":         "starts a goroutine",
	"gi:make-app":    "writes an application directory and runs the Go tool chain",
	// block, sleep or never return
	"common-lisp:sleep": "sleeps",
	"common-lisp:loop":  "(loop) without clauses never returns",
	"gi:signal-wait":    "blocks until a signal arrives",
	"gi:select":         "blocks on channels",
	"gi:time-after":     "starts a timer goroutine",
	"gi:time-ticker":    "starts a ticker goroutine",
	"gi:channel-pop":    "blocks on an empty channel",
	"gi:channel-push":   "blocks on a full channel",
	"gi:range":          "blocks on a channel",
	"gi:read-push":      "pushes to a channel (blocks when full)",
	// create, modify or delete files
	"common-lisp:open":                     "creates files",
	"common-lisp:delete-file":              "deletes files",
	"common-lisp:rename-file":              "renames files",
	"common-lisp:ensure-directories-exist": "creates directories",
	"common-lisp:dribble":                  "creates a file and redirects the standard streams",
	"common-lisp:load":                     "reads and evaluates a file",
	"common-lisp:require":                  "reads and evaluates files",
	"common-lisp:with-open-file":           "creates files",
	"gi:encrypt-file":                      "writes files",
	"gi:decrypt-file":                      "writes files",
	"gi:save":                              "writes a file",
	"bag:load-bag":                         "reads a file",
	// math/rand with a math/big limit goes through the engine's native bridge,
	// which cannot pass the interpreted random source (fixnum limits are
	// covered by C09.index)
	"common-lisp:random": "math/rand.(*Rand).Int over the native bridge",
	// raises a Go panic by design
	"gi:panic": "raises its argument as a Go panic (the documented purpose of the function)",
	// the engine cannot execute the body (native runtime / OS structures)
	"gi:unzip":                "compress/gzip over an interpreted reader",
	"gi:zip":                  "compress/gzip over an interpreted writer",
	"common-lisp:file-author": "syscall.Stat",
	"common-lisp:lisp-implementation-version": "reads runtime/debug build info",
	"common-lisp:machine-instance":            "os.Hostname",
	"common-lisp:room":                        "runtime.ReadMemStats",
	"gi:memstat":                              "runtime.ReadMemStats",
	"gi:snapshot":                             "walks native runtime structures",
	"common-lisp:print-unreadable-object":     "prints the address of its argument (uintptr conversion)",
	"bag:discover-json":                       "ojg discover with an interpreted callback",
}

func zzC09Find(key string) *slip.FuncInfo {
	for i := 0; i < len(key); i++ {
		if key[i] == ':' {
			p := slip.FindPackage(key[:i])
			if p == nil {
				return nil
			}
			return p.GetFunc(key[i+1:])
		}
	}
	return nil
}

// VerifC09Registry: the table zzC09Names is exactly the registry built by the
// package inits, so "every function" is every function; the exclusion list
// only names registry functions.
func VerifC09Registry() {
	inTable := map[string]bool{}
	for i := 0; i < len(zzC09Names); i++ {
		vrt.Assert(!inTable[zzC09Names[i]], "duplicate entry in the C09 function table")
		inTable[zzC09Names[i]] = true
	}
	count := 0
	for _, pn := range []string{"bag", "clos", "common-lisp", "flavors", "generic", "gi"} {
		p := slip.FindPackage(pn)
		vrt.Assert(p != nil && p.Name == pn, "package missing")
		missing := 0
		p.EachFuncInfo(func(fi *slip.FuncInfo) {
			if fi.Pkg != p {
				return
			}
			count++
			if !inTable[pn+":"+fi.Name] {
				missing++
			}
		})
		vrt.Assert(missing == 0, "a registry function is missing from the C09 function table (regenerate it)")
	}
	vrt.Assert(count == len(zzC09Names), "the C09 function table has entries that are not in the registry")
	for key := range zzC09TupleExcluded {
		vrt.Assert(inTable[key], "exclusion list names an unknown function")
	}
	vrt.Note("functions", count, "excluded", len(zzC09TupleExcluded))
	vrt.Reach("registry")
}

func zzC09EvalFunc(scope *slip.Scope, fi *slip.FuncInfo, objs []slip.Object) (class int) {
	defer func() {
		if rec := recover(); rec != nil {
			class = zzC09Classify(rec)
		}
	}()
	probe := fi.Create(nil)
	se, _ := probe.(interface{ SkipArgEval(int) bool })
	forms := make(slip.List, len(objs))
	for i := range objs {
		forms[i] = zzC09ArgForm(objs[i], se != nil && se.SkipArgEval(i))
	}
	scope.Eval(fi.Create(forms), 0)
	return zzC09Value
}

// VerifC09Tuple: function idx of the registry table called without arguments
// (a0 == -2), with one argument (a0 == -1) or with two (a0 >= 0: pool object a0 first); the (other) argument
// is pool object a1, a vrt.Choice the engine forks over.
func VerifC09Tuple(idx, a0 int) {
	key := zzC09Names[idx]
	fi := zzC09Find(key)
	vrt.Assert(fi != nil, "table entry is not in the registry")
	if _, ex := zzC09TupleExcluded[key]; ex {
		vrt.Reach("excluded")
		return
	}
	zzC09Streams()
	a1 := 0
	if a0 != -2 {
		a1 = vrt.Choice("a1", zzC09PoolSize)
	}
	scope := slip.NewScope()
	var objs []slip.Object
	if a0 == -2 {
		// the call without arguments
	} else if a0 < 0 {
		objs = []slip.Object{zzC09PoolObj(scope, a1, "x0", false)}
	} else {
		objs = []slip.Object{zzC09PoolObj(scope, a0, "x0", false), zzC09PoolObj(scope, a1, "x1", false)}
	}
	zzC09TupleCarves(key, a0, a1)
	class := zzC09Value
	cut := zzC09Guard(10*zzC09Steps, zzC09Decisions, func() { class = zzC09EvalFunc(scope, fi, objs) })
	vrt.Note("class", key, a0, a1, class, cut)
	vrt.Reach("called")
	if cut != 0 {
		vrt.Assert(vrt.Faults() <= 0, "Go run-time fault instead of a Lisp condition")
	}
	vrt.Assert(cut == 0, "evaluation does not finish within its budget")
	zzC09Check(class)
}

// zzC09TupleCarves: regions of the recorded findings of C09.tuple: the rows
// of zzC09TupleKnown ("function|a0|a1" -> family), one carve id per family.
func zzC09TupleCarves(key string, a0, a1 int) {
	fam := -1
	if f, has := zzC09TupleKnown[key+"|"+strconv.Itoa(a0)+"|"+strconv.Itoa(a1)]; has {
		fam = f
	}
	for f := 0; f < len(zzC09TupleFams); f++ {
		vrt.Carve(zzC09TupleFams[f], fam == f)
	}
}

// zzC09Guard runs f (which recovers its own panics) and reports how it ended:
// 0 it returned; 1 it allocated without bound; 2 (engine only) it reached an
// allocation of 65..2^31 elements, which the engine does not explore further;
// 3 it did not finish within its budget of steps (natively: of time); 4
// (engine only) it forked more often than its budget of symbolic decisions.  In the engine this function is an
// intrinsic (/verif/engine/x_c09.go): budgets are SSA instructions and
// symbolic decisions, "without bound" means an allocation whose symbolic size
// can exceed 2^31 elements under the path condition.  Natively (replay of a
// model) f runs in a goroutine under a watchdog: more than 2 GiB obtained from
// the system => 1, more than 10 s => 3.
func zzC09Guard(steps, decisions int, f func()) int {
	var base runtime.MemStats
	runtime.ReadMemStats(&base)
	done := make(chan struct{})
	go func() {
		defer close(done)
		f()
	}()
	tick := time.NewTicker(10 * time.Millisecond)
	defer tick.Stop()
	deadline := time.After(10 * time.Second)
	for {
		select {
		case <-done:
			return 0
		case <-deadline:
			return 3
		case <-tick.C:
			var ms runtime.MemStats
			runtime.ReadMemStats(&ms)
			if base.Sys+(2<<30) < ms.Sys {
				return 1
			}
		}
	}
}

// VerifC09FormatOne is a development aid: the concrete control string
// "~" b1 b2 "r" (bytes by alphabet index) with grid integer g.
func VerifC09FormatOne(b1, b2, g int) {
	ctl := []byte{'~', zzC09FmtAlpha[b1], zzC09FmtAlpha[b2], 'r'}
	form := slip.List{slip.Symbol("format"), nil, slip.String(ctl), slip.Fixnum(zzC09FmtGrid[g])}
	zzC09Streams()
	vrt.Note("ctl", string(ctl))
	zzC09Guarded(slip.NewScope(), form, zzC09FmtDecis)
}
