package cl

import (
	"strconv"
	"strings"

	"github.com/ohler55/slip"
	vrt "github.com/ohler55/slip/zzvrt"
)

// ---------------------------------------------------------------------------
// C06: lists keep value semantics although they are stored as shared Go slices.
//
// One inductive step: a pool of named lists is built directly as slip.List
// values re-sliced from (at most two) backing arrays, ONE operation is run
// through the real registry (a form evaluated in a scope where the pool lists
// are bound to variables), then the post-conditions are decided by the solver
// for all element values and integer arguments:
//   (1) no store into a cell the language does not allow the operation to change
//       (all cells of all backing arrays are compared with a value snapshot;
//       the oracle says which cells are free / must hold which new value);
//   (2) the result (and a rebound variable) has the contents the cons-cell
//       reference model computes from the snapshots;
//   (3) the result's region is outside every pool array unless the result is by
//       definition a tail of (or the destructively reused) argument;
//   (4) representation invariant I again: a result that lives in a pool array
//       ends exactly at that array's visible end (so no list's spare capacity
//       covers another list's visible cells).
// Pool invariant I (pre-state, by construction): all lists over one backing
// array end at the same cell (they are tails of each other), the cells behind
// that end are spare capacity, different arrays are disjoint.
// ---------------------------------------------------------------------------

type zzC06Pool struct {
	arr   [2]slip.List // full backing arrays (len == cap)
	snap  [2][]int64   // value snapshot of every cell (visible and spare)
	ae    [2]int       // visible end of array k
	n     int          // number of pool lists
	lst   [3]slip.List // the pool lists (slice headers as a variable holds them)
	la    [3]int       // backing array of list i
	lo    [3]int       // start offset of list i
	le    [3]int       // end offset (exclusive) of list i
	names [3]slip.Symbol
	free  [2][]bool  // oracle: cell may hold anything afterwards
	want  [2][]int64 // oracle: value the cell must hold afterwards (initially the snapshot)
}

// zzC06Loc finds the backing array and offset of the first cell of l's full
// region (visible+spare). arr = -1: no cell of a pool array (fresh or no cells).
func zzC06Loc(p *zzC06Pool, l slip.List) (arr int, off int) {
	if cap(l) == 0 {
		return -1, 0
	}
	full := l[:cap(l)]
	first := &full[0]
	for k := 0; k < 2; k++ {
		a := p.arr[k]
		for j := 0; j < len(a); j++ {
			if first == &a[j] {
				return k, j
			}
		}
	}
	return -1, 0
}

// zzC06Sym: a symbolic fixnum; bounded only where the operation does arithmetic on elements (1+).
func zzC06Sym(name string, bounded bool) int64 {
	v := vrt.Int64(name)
	if bounded {
		vrt.Assume(-1000 < v)
		vrt.Assume(v < 1000)
	}
	return v
}

// zzC06Build makes array k with e visible cells and sp spare cells, all
// holding symbolic fixnums.
func zzC06Build(p *zzC06Pool, k, e, sp int, bounded bool) {
	a := make(slip.List, e+sp)
	s := make([]int64, e+sp)
	w := make([]int64, e+sp)
	for j := 0; j < e+sp; j++ {
		v := zzC06Sym("c"+strconv.Itoa(k)+"_"+strconv.Itoa(j), bounded)
		s[j] = v
		w[j] = v
		a[j] = slip.Fixnum(v)
	}
	p.arr[k] = a
	p.snap[k] = s
	p.want[k] = w
	p.free[k] = make([]bool, e+sp)
	p.ae[k] = e
}

func zzC06Add(p *zzC06Pool, name string, k, lo int) {
	i := p.n
	p.lst[i] = p.arr[k][lo:p.ae[k]]
	p.la[i], p.lo[i], p.le[i] = k, lo, p.ae[k]
	p.names[i] = slip.Symbol(name)
	p.n++
}

// zzC06Vals returns the snapshot contents of pool list i.
func zzC06Vals(p *zzC06Pool, i int) []int64 {
	out := make([]int64, 0, 8)
	for j := p.lo[i]; j < p.le[i]; j++ {
		out = append(out, p.snap[p.la[i]][j])
	}
	return out
}

func zzC06Cat(a, b []int64) []int64 {
	out := make([]int64, 0, 16)
	for i := 0; i < len(a); i++ {
		out = append(out, a[i])
	}
	for i := 0; i < len(b); i++ {
		out = append(out, b[i])
	}
	return out
}

func zzC06Rev(a []int64) []int64 {
	out := make([]int64, len(a))
	for i := 0; i < len(a); i++ {
		out[len(a)-1-i] = a[i]
	}
	return out
}

// zzC06Clamp: -1 if n < 0, hi+1 if n > hi, else n as a concrete int.
func zzC06Clamp(n int64, hi int) int {
	if n < 0 {
		return -1
	}
	for k := 0; k <= hi; k++ {
		if n == int64(k) {
			return k
		}
	}
	return hi + 1
}

// zzC06IsVals: obj is a proper list (nil or empty when want is empty) of exactly the fixnums in want.
func zzC06IsVals(obj slip.Object, want []int64) bool {
	var l slip.List
	switch t := obj.(type) {
	case nil:
	case slip.List:
		l = t
	default:
		return false
	}
	if len(l) != len(want) {
		return false
	}
	for i := 0; i < len(want); i++ {
		f, ok := l[i].(slip.Fixnum)
		if !ok {
			return false
		}
		if int64(f) != want[i] {
			return false
		}
	}
	return true
}

type zzC06Out struct {
	val   slip.Object
	class int // 0 value, 1 condition, 3 Go run-time fault, 4 other panic
}

func zzC06Eval(scope *slip.Scope, form slip.Object) (out zzC06Out) {
	defer func() {
		if rec := recover(); rec != nil {
			out.val = nil
			switch tr := rec.(type) {
			case *slip.Panic:
				out.class = 1
				// Function.Eval (normalAfter) wraps a Go run-time error into an error condition
				if vrt.Symbolic() {
					if vrt.Faults() > 0 {
						out.class = 3
					}
				} else if strings.Contains(tr.Message, "runtime error") || strings.Contains(tr.Message, "makeslice") {
					out.class = 3
				}
			case slip.Instance:
				out.class = 1
			case interface{ RuntimeError() }:
				out.class = 3
			default:
				out.class = 4
			}
		}
	}()
	out.val = scope.Eval(form, 0)
	return
}

// region rules
const (
	zzC06RNone      = iota // scalar result, nothing to place
	zzC06RFresh            // outside every pool array
	zzC06RTail             // exactly pool list ri from element rat on (shared cells)
	zzC06RTailFresh        // that tail, or a fresh copy of it
	zzC06RStart            // fresh, or starts at the first cell of pool list ri (destructive reuse)
	zzC06RSame             // fresh, or exactly the region of pool list ri
)

type zzC06Exp struct {
	dom  bool // arguments inside the CL domain: a value must come back
	chk  bool // compare the result contents
	vals []int64
	scal bool // expected result is a scalar: fixnum sv, or nil when snil
	sv   int64
	snil bool
	rule int
	ri   int
	rat  int
	// variable rebinding (push/pop/addf ...)
	hasVar bool
	vvals  []int64
	vrule  int
	vat    int
}

// zzC06Place checks region rule (3) and invariant (4) for a list value.
func zzC06Place(p *zzC06Pool, obj slip.Object, rule, ri, rat int, what string) {
	l, ok := obj.(slip.List)
	if !ok {
		return
	}
	k, off := zzC06Loc(p, l)
	vrt.Note(what, k, off, len(l), cap(l))
	if k < 0 {
		vrt.Assert(rule != zzC06RTail || len(l) == 0, what+": a tail by definition does not share the cells of its list")
		return
	}
	// the value lives in pool array k
	if len(l) == 0 {
		// an empty list with capacity: harmless only at the visible end (it is an empty tail)
		vrt.Assert(off == p.ae[k], what+": empty list positioned over visible cells of a pool list")
		return
	}
	switch rule {
	case zzC06RFresh, zzC06RNone:
		vrt.Assert(false, what+": shares a backing array with an argument although it is not a tail by definition")
	case zzC06RTail, zzC06RTailFresh:
		vrt.Assert(k == p.la[ri] && off == p.lo[ri]+rat, what+": shares a backing array but is not the tail the language defines")
	case zzC06RStart:
		vrt.Assert(k == p.la[ri] && off == p.lo[ri], what+": lives in a pool array that is not the reused argument's")
	case zzC06RSame:
		vrt.Assert(k == p.la[ri] && off == p.lo[ri] && off+len(l) == p.le[ri], what+": lives in a pool array but is not the reused argument's region")
	}
}

// zzC06InvI is post-condition (4) for a value living in a pool array.
func zzC06InvI(p *zzC06Pool, obj slip.Object, what string) {
	l, ok := obj.(slip.List)
	if !ok || cap(l) == 0 {
		return
	}
	k, off := zzC06Loc(p, l)
	if k < 0 {
		return
	}
	vrt.Assert(off+len(l) == p.ae[k], what+": invariant I broken, spare capacity of one list covers visible cells of another")
}

// zzC06Disjoint: two list values share no cell (visible or spare).
func zzC06Disjoint(a, b slip.Object) bool {
	la, ok1 := a.(slip.List)
	lb, ok2 := b.(slip.List)
	if !ok1 || !ok2 || cap(la) == 0 || cap(lb) == 0 {
		return true
	}
	if len(la) == 0 && len(lb) == 0 {
		// two empty lists (nil in the cons model) over the same spare cells: the argument's own empty
		// tail handed back; placement (3) has already required it to sit at the visible end
		return true
	}
	fa := la[:cap(la)]
	fb := lb[:cap(lb)]
	for i := 0; i < len(fa); i++ {
		for j := 0; j < len(fb); j++ {
			if &fa[i] == &fb[j] {
				return false
			}
		}
	}
	return true
}

func zzC06FreeSpare(p *zzC06Pool, k int) {
	for j := p.ae[k]; j < len(p.arr[k]); j++ {
		p.free[k][j] = true
	}
}

func zzC06FreeVisible(p *zzC06Pool, i int) {
	for j := p.lo[i]; j < p.le[i]; j++ {
		p.free[p.la[i]][j] = true
	}
}

// zzC06MinTail: smallest start of a pool list that is a proper tail of list i
// (same array, starts later); the visible end when there is none.
func zzC06MinTail(p *zzC06Pool, i int) int {
	m := p.ae[p.la[i]]
	for q := 0; q < p.n; q++ {
		if p.la[q] == p.la[i] && p.lo[q] > p.lo[i] && p.lo[q] < m {
			m = p.lo[q]
		}
	}
	return m
}

func zzC06Kw(s string) slip.Object { return slip.Symbol(s) }
func zzC06Q(o slip.Object) slip.Object {
	return slip.List{slip.Symbol("quote"), o}
}

// removal model: drop elements equal to x with index in [s,e), at most cnt of them, from the left or the right.
func zzC06Remove(av []int64, x int64, s, e int, cnt int64, fromEnd bool) []int64 {
	drop := make([]bool, len(av))
	var done int64
	if fromEnd {
		for i := len(av) - 1; i >= 0; i-- {
			if s <= i && i < e && av[i] == x && done < cnt {
				drop[i] = true
				done++
			}
		}
	} else {
		for i := 0; i < len(av); i++ {
			if s <= i && i < e && av[i] == x && done < cnt {
				drop[i] = true
				done++
			}
		}
	}
	out := make([]int64, 0, 8)
	for i := 0; i < len(av); i++ {
		if !drop[i] {
			out = append(out, av[i])
		}
	}
	return out
}

func zzC06Sorted(av []int64) []int64 {
	out := make([]int64, len(av))
	for i := 0; i < len(av); i++ {
		out[i] = av[i]
	}
	for i := 1; i < len(out); i++ {
		for j := i; j > 0; j-- {
			if out[j] < out[j-1] {
				out[j], out[j-1] = out[j-1], out[j]
			}
		}
	}
	return out
}

// operation codes (mirrored by zz_verif_c06_cases.py)
const (
	zzC06Cons = iota
	zzC06ListX
	zzC06Append
	zzC06Append1
	zzC06Cdr
	zzC06Rest
	zzC06Nthcdr
	zzC06Last
	zzC06Last1
	zzC06Butlast
	zzC06Butlast1 // 10
	zzC06Subseq
	zzC06Subseq1
	zzC06CopyList
	zzC06Reverse
	zzC06RemoveCnt
	zzC06RemoveSE
	zzC06RemoveFE
	zzC06Member
	zzC06Mapcar
	zzC06Push // 20
	zzC06Pop
	zzC06SetfCar
	zzC06SetfNth
	zzC06SetfElt
	zzC06Rplaca
	zzC06Rplacd
	zzC06Nconc
	zzC06Nreverse
	zzC06Sort
	zzC06DeleteCnt // 30
	zzC06Add2
	zzC06Add1
	zzC06CopySeq
	zzC06Revappend
	zzC06Nreconc
	zzC06Adjoin
	zzC06Pushnew
	zzC06Addf
	zzC06Addnew
	zzC06Nbutlast // 40
	zzC06Fill
	zzC06Nsubstitute
	zzC06Substitute
	zzC06RemoveIf
	zzC06Concatenate
	zzC06StableSort
	zzC06SetfSubseq
	zzC06RplacdNil
	zzC06DeleteDup
	zzC06RemoveDup // 50
	zzC06Union
	zzC06Merge
)

// VerifC06Step: one operation on a pool of lists.
//
//	op        operation code
//	e0, sp0   array 0: e0 visible cells (list a = all of them), sp0 spare cells
//	p1        list b: 0..e0 = the tail of a starting at cell p1 (0: the same list, e0: the empty tail);
//	          10+e1 = its own array 1 with e1 visible cells
//	sp1       spare cells of array 1
//	p2        list c: -1 none; 0..e0 tail on array 0; 10+k tail of b at k on array 1
//	sel       operands: first list operand = pool[sel%3], second = pool[sel/3]
func VerifC06Step(op, e0, sp0, p1, sp1, p2, sel int) {
	var p zzC06Pool
	bounded := op == zzC06Mapcar
	zzC06Build(&p, 0, e0, sp0, bounded)
	zzC06Add(&p, "a", 0, 0)
	if p1 >= 10 {
		zzC06Build(&p, 1, p1-10, sp1, bounded)
		zzC06Add(&p, "b", 1, 0)
	} else {
		zzC06Add(&p, "b", 0, p1)
	}
	if p2 >= 10 {
		zzC06Add(&p, "c", 1, p2-10)
	} else if p2 >= 0 {
		zzC06Add(&p, "c", 0, p2)
	}
	i1, i2 := sel%3, sel/3
	x := zzC06Sym("x", false)
	y := zzC06Sym("y", false)
	n := vrt.Int64("n")
	m := vrt.Int64("m")

	scope := slip.NewScope()
	for i := 0; i < p.n; i++ {
		scope.Let(p.names[i], p.lst[i])
	}
	A, B := slip.Object(p.names[i1]), slip.Object(p.names[i2])
	S := func(s string) slip.Object { return slip.Symbol(s) }
	X, Y, N, M := slip.Object(slip.Fixnum(x)), slip.Object(slip.Fixnum(y)), slip.Object(slip.Fixnum(n)), slip.Object(slip.Fixnum(m))

	var form slip.List
	switch op {
	case zzC06Cons:
		form = slip.List{S("cons"), X, A}
	case zzC06ListX:
		form = slip.List{S("list*"), X, A}
	case zzC06Append:
		form = slip.List{S("append"), A, B}
	case zzC06Append1:
		form = slip.List{S("append"), A}
	case zzC06Cdr:
		form = slip.List{S("cdr"), A}
	case zzC06Rest:
		form = slip.List{S("rest"), A}
	case zzC06Nthcdr:
		form = slip.List{S("nthcdr"), N, A}
	case zzC06Last:
		form = slip.List{S("last"), A, N}
	case zzC06Last1:
		form = slip.List{S("last"), A}
	case zzC06Butlast:
		form = slip.List{S("butlast"), A, N}
	case zzC06Butlast1:
		form = slip.List{S("butlast"), A}
	case zzC06Subseq:
		form = slip.List{S("subseq"), A, N, M}
	case zzC06Subseq1:
		form = slip.List{S("subseq"), A, N}
	case zzC06CopyList:
		form = slip.List{S("copy-list"), A}
	case zzC06Reverse:
		form = slip.List{S("reverse"), A}
	case zzC06RemoveCnt:
		form = slip.List{S("remove"), X, A, zzC06Kw(":count"), N}
	case zzC06RemoveSE:
		form = slip.List{S("remove"), X, A, zzC06Kw(":start"), N, zzC06Kw(":end"), M}
	case zzC06RemoveFE:
		form = slip.List{S("remove"), X, A, zzC06Kw(":from-end"), slip.True, zzC06Kw(":count"), N}
	case zzC06Member:
		form = slip.List{S("member"), X, A}
	case zzC06Mapcar:
		form = slip.List{S("mapcar"), zzC06Q(S("1+")), A}
	case zzC06Push:
		form = slip.List{S("push"), X, A}
	case zzC06Pop:
		form = slip.List{S("pop"), A}
	case zzC06SetfCar:
		form = slip.List{S("setf"), slip.List{S("car"), A}, X}
	case zzC06SetfNth:
		form = slip.List{S("setf"), slip.List{S("nth"), N, A}, X}
	case zzC06SetfElt:
		form = slip.List{S("setf"), slip.List{S("elt"), A, N}, X}
	case zzC06Rplaca:
		form = slip.List{S("rplaca"), A, X}
	case zzC06Rplacd:
		form = slip.List{S("rplacd"), A, B}
	case zzC06Nconc:
		form = slip.List{S("nconc"), A, B}
	case zzC06Nreverse:
		form = slip.List{S("nreverse"), A}
	case zzC06Sort:
		form = slip.List{S("sort"), A, zzC06Q(S("<"))}
	case zzC06DeleteCnt:
		form = slip.List{S("delete"), X, A, zzC06Kw(":count"), N}
	case zzC06Add2:
		form = slip.List{S("add"), A, X, Y}
	case zzC06Add1:
		form = slip.List{S("add"), A, X}
	case zzC06CopySeq:
		form = slip.List{S("copy-seq"), A}
	case zzC06Revappend:
		form = slip.List{S("revappend"), A, B}
	case zzC06Nreconc:
		form = slip.List{S("nreconc"), A, B}
	case zzC06Adjoin:
		form = slip.List{S("adjoin"), X, A}
	case zzC06Pushnew:
		form = slip.List{S("pushnew"), X, A}
	case zzC06Addf:
		form = slip.List{S("addf"), A, X}
	case zzC06Addnew:
		form = slip.List{S("addnew"), X, A}
	case zzC06Nbutlast:
		form = slip.List{S("nbutlast"), A, N}
	case zzC06Fill:
		form = slip.List{S("fill"), A, X, zzC06Kw(":start"), N, zzC06Kw(":end"), M}
	case zzC06Nsubstitute:
		form = slip.List{S("nsubstitute"), X, Y, A}
	case zzC06Substitute:
		form = slip.List{S("substitute"), X, Y, A}
	case zzC06RemoveIf:
		form = slip.List{S("remove-if"), zzC06Q(S("minusp")), A}
	case zzC06Concatenate:
		form = slip.List{S("concatenate"), zzC06Q(S("list")), A, B}
	case zzC06StableSort:
		form = slip.List{S("stable-sort"), A, zzC06Q(S("<"))}
	case zzC06SetfSubseq:
		form = slip.List{S("setf"), slip.List{S("subseq"), A, N, M}, B}
	case zzC06RplacdNil:
		form = slip.List{S("rplacd"), A, nil}
	case zzC06DeleteDup:
		form = slip.List{S("delete-duplicates"), A}
	case zzC06RemoveDup:
		form = slip.List{S("remove-duplicates"), A}
	case zzC06Union:
		form = slip.List{S("union"), A, B}
	default:
		form = slip.List{S("merge"), zzC06Q(S("list")), A, B, zzC06Q(S("<"))}
	}

	// combinations without a meaning in the cons model (the driver does not generate them)
	if p.la[i1] == p.la[i2] {
		if op == zzC06SetfSubseq {
			return
		}
		if (op == zzC06Nconc || op == zzC06Nreconc) && p.le[i1] > p.lo[i1] && p.le[i2] > p.lo[i2] {
			return // circular list
		}
	}

	out := zzC06Eval(scope, form)
	vrt.Reach("ran")

	// ---- the oracle: computed from the snapshots only ----
	av, bv := zzC06Vals(&p, i1), zzC06Vals(&p, i2)
	la, lb := len(av), len(bv)
	ka := p.la[i1]                       // array of A
	capA := len(p.arr[ka]) - p.lo[i1]    // Go capacity of A
	one := func(v int64) []int64 { return []int64{v} }
	ex := zzC06Exp{dom: true, chk: true, rule: zzC06RFresh, ri: i1}
	mayErr := false
	twice := false // evaluate again and require independent results
	inPlaceEnd := -1 // for the extenders: end cell of the result when Go's append works in place, else -1
	switch op {
	case zzC06Cons, zzC06ListX:
		ex.vals = zzC06Cat(one(x), av)
		twice = true
	case zzC06Append, zzC06Concatenate:
		ex.vals = zzC06Cat(av, bv)
		twice = true
	case zzC06Append1, zzC06CopyList, zzC06CopySeq:
		ex.vals = av
		twice = true
	case zzC06Cdr, zzC06Rest:
		at := 1
		if la == 0 {
			at = 0
		}
		ex.vals, ex.rule, ex.rat = av[at:], zzC06RTail, at
	case zzC06Nthcdr:
		k := zzC06Clamp(n, la)
		if k < 0 {
			ex.dom = false
		} else {
			if k > la {
				k = la
			}
			ex.vals, ex.rule, ex.rat = av[k:], zzC06RTail, k
		}
	case zzC06Last, zzC06Last1:
		k := 1
		if op == zzC06Last {
			k = zzC06Clamp(n, la)
		}
		if k < 0 {
			ex.dom = false
		} else {
			if k > la {
				k = la
			}
			ex.vals, ex.rule, ex.rat = av[la-k:], zzC06RTailFresh, la-k
		}
	case zzC06Butlast, zzC06Butlast1, zzC06Nbutlast:
		k := 1
		if op != zzC06Butlast1 {
			k = zzC06Clamp(n, la)
		}
		if k < 0 {
			ex.dom = false
		} else {
			if k > la {
				k = la
			}
			ex.vals = av[:la-k]
			twice = true
		}
	case zzC06Subseq, zzC06Subseq1:
		s := zzC06Clamp(n, la)
		e := la
		if op == zzC06Subseq {
			e = zzC06Clamp(m, la)
		}
		if s < 0 || e < 0 || la < e || e < s {
			ex.dom = false
		} else {
			ex.vals = av[s:e]
			twice = true
		}
	case zzC06Reverse:
		ex.vals = zzC06Rev(av)
		twice = true
	case zzC06RemoveCnt, zzC06DeleteCnt:
		ex.vals = zzC06Remove(av, x, 0, la, n, false)
		twice = op == zzC06RemoveCnt
	case zzC06RemoveFE:
		ex.vals = zzC06Remove(av, x, 0, la, n, true)
		twice = true
	case zzC06RemoveSE:
		s, e := zzC06Clamp(n, la), zzC06Clamp(m, la)
		if s < 0 || e < 0 || la < e || e < s {
			ex.dom = false
		} else {
			ex.vals = zzC06Remove(av, x, s, e, 1<<40, false)
			twice = true
		}
	case zzC06RemoveIf:
		r := make([]int64, 0, 8)
		for i := 0; i < la; i++ {
			if av[i] >= 0 {
				r = append(r, av[i])
			}
		}
		ex.vals = r
		twice = true
	case zzC06Member:
		at := la
		for i := la - 1; i >= 0; i-- {
			if av[i] == x {
				at = i
			}
		}
		ex.vals, ex.rule, ex.rat = av[at:], zzC06RTail, at
	case zzC06Mapcar:
		r := make([]int64, la)
		for i := 0; i < la; i++ {
			r[i] = av[i] + 1
		}
		ex.vals = r
		twice = true
	case zzC06Push:
		ex.vals = zzC06Cat(one(x), av)
		ex.hasVar, ex.vvals, ex.vrule = true, ex.vals, zzC06RFresh
	case zzC06Pop:
		ex.scal, ex.rule = true, zzC06RNone
		at := 1
		if la == 0 {
			ex.snil, at = true, 0
		} else {
			ex.sv = av[0]
		}
		ex.hasVar, ex.vvals, ex.vrule, ex.vat = true, av[at:], zzC06RTail, at
	case zzC06SetfCar, zzC06Rplaca:
		if la == 0 {
			ex.dom = false
		} else {
			p.want[ka][p.lo[i1]] = x
			if op == zzC06SetfCar {
				ex.scal, ex.sv, ex.rule = true, x, zzC06RNone
			} else {
				ex.vals, ex.rule = zzC06Cat(one(x), av[1:]), zzC06RTail
			}
		}
	case zzC06SetfNth, zzC06SetfElt:
		k := zzC06Clamp(n, la-1)
		if k < 0 || k >= la {
			ex.dom = false
		} else {
			p.want[ka][p.lo[i1]+k] = x
			ex.scal, ex.sv, ex.rule = true, x, zzC06RNone
		}
	case zzC06Fill:
		s, e := zzC06Clamp(n, la), zzC06Clamp(m, la)
		if s < 0 || e < 0 || la < e || e < s {
			ex.dom = false
		} else {
			r := make([]int64, la)
			for i := 0; i < la; i++ {
				r[i] = av[i]
				if s <= i && i < e {
					r[i] = x
					p.want[ka][p.lo[i1]+i] = x
				}
			}
			ex.vals, ex.rule = r, zzC06RTail
			mayErr = true // slip rejects :end = length; not this property's business
		}
	case zzC06Nsubstitute, zzC06Substitute:
		r := make([]int64, la)
		for i := 0; i < la; i++ {
			r[i] = av[i]
			if av[i] == y {
				r[i] = x
				if op == zzC06Nsubstitute {
					p.want[ka][p.lo[i1]+i] = x
				}
			}
		}
		ex.vals = r
		if op == zzC06Nsubstitute {
			ex.rule = zzC06RSame
		} else {
			twice = true
		}
	case zzC06SetfSubseq:
		s, e := zzC06Clamp(n, la), zzC06Clamp(m, la)
		if s < 0 || e < 0 || la < e || e < s {
			ex.dom = false
		} else {
			for i := 0; s+i < e && i < lb; i++ {
				p.want[ka][p.lo[i1]+s+i] = bv[i]
			}
			ex.vals, ex.rule, ex.ri = bv, zzC06RTail, i2 // setf returns the new value
			mayErr = lb == 0                             // slip rejects an empty new value (it arrives as nil)
		}
	case zzC06Rplacd, zzC06RplacdNil:
		if op == zzC06RplacdNil {
			bv, lb = nil, 0
		}
		if la == 0 {
			ex.dom = false
		} else {
			ex.vals, ex.rule = zzC06Cat(av[:1], bv), zzC06RStart
			// only the cdr slot of the first cons may change: the cells behind it are free
			// unless a pool list that is a proper tail of A still sees them
			mt := zzC06MinTail(&p, i1)
			for j := p.lo[i1] + 1; j < mt; j++ {
				p.free[ka][j] = true
			}
			zzC06FreeSpare(&p, ka)
			if 1+lb <= capA {
				inPlaceEnd = p.lo[i1] + 1 + lb
			}
		}
	case zzC06Nconc, zzC06Nreconc:
		ex.vals = zzC06Cat(av, bv)
		if op == zzC06Nreconc {
			ex.vals = zzC06Cat(zzC06Rev(av), bv)
			zzC06FreeVisible(&p, i1)
		}
		if la == 0 && op == zzC06Nconc {
			// nothing to extend: the second operand itself (or a copy)
			ex.rule, ex.ri, ex.rat = zzC06RTailFresh, i2, 0
		} else {
			ex.rule = zzC06RStart
			zzC06FreeSpare(&p, ka)
			if la+lb <= capA {
				inPlaceEnd = p.le[i1] + lb
			}
		}
	case zzC06Revappend:
		ex.vals = zzC06Cat(zzC06Rev(av), bv)
		twice = true
	case zzC06Nreverse:
		ex.vals, ex.rule = zzC06Rev(av), zzC06RSame
		zzC06FreeVisible(&p, i1)
	case zzC06Sort, zzC06StableSort:
		ex.vals, ex.rule = zzC06Sorted(av), zzC06RSame
		zzC06FreeVisible(&p, i1)
	case zzC06Add2, zzC06Add1, zzC06Addf:
		ex.vals = zzC06Cat(av, one(x))
		cnt := 1
		if op == zzC06Add2 {
			ex.vals = zzC06Cat(ex.vals, one(y))
			cnt = 2
		}
		ex.rule = zzC06RStart
		zzC06FreeSpare(&p, ka)
		if la+cnt <= capA {
			inPlaceEnd = p.le[i1] + cnt
		}
		if op == zzC06Addf {
			ex.hasVar, ex.vvals, ex.vrule = true, ex.vals, zzC06RStart
		}
	case zzC06Adjoin, zzC06Pushnew, zzC06Addnew:
		found := false
		for i := 0; i < la; i++ {
			if av[i] == x {
				found = true
			}
		}
		switch {
		case found:
			ex.vals, ex.rule, ex.rat = av, zzC06RTailFresh, 0
		case op == zzC06Addnew:
			ex.vals, ex.rule = zzC06Cat(av, one(x)), zzC06RStart
			zzC06FreeSpare(&p, ka)
			if la+1 <= capA {
				inPlaceEnd = p.le[i1] + 1
			}
		default:
			ex.vals = zzC06Cat(one(x), av)
		}
		if op != zzC06Adjoin {
			ex.hasVar, ex.vvals, ex.vrule = true, ex.vals, ex.rule
		}
	default: // delete-duplicates, remove-duplicates, union, merge: only placement and stores
		ex.chk = false
		twice = op != zzC06DeleteDup
		if op == zzC06DeleteDup {
			zzC06FreeVisible(&p, i1)
		}
	}

	if out.class != 0 {
		// a signalled condition must leave every cell as it was
		for k := 0; k < 2; k++ {
			for j := 0; j < len(p.want[k]); j++ {
				p.want[k][j] = p.snap[k][j]
			}
		}
	} else if !ex.dom && (op == zzC06Fill || op == zzC06SetfNth || op == zzC06SetfElt || op == zzC06SetfSubseq) {
		// a destructive operation accepted arguments outside the CL domain: its own list is its business
		zzC06FreeVisible(&p, i1)
	}

	// ---- no Go run-time fault (the slice idiom's bounds) ----
	if op == zzC06Last {
		vrt.Carve("C06-go-fault-index-args", n < 0)
	} else if op == zzC06Subseq {
		vrt.Carve("C06-go-fault-index-args", 0 <= m && m < n && n <= int64(la))
	}
	vrt.Assert(out.class != 3, "Go run-time fault in a list operation")

	// ---- (1) stores ----
	// rplacd works in place over the cells behind the first element: it overwrites cells a live tail still sees
	vrt.Carve("C06-rplacd-in-place", op == zzC06Rplacd && la > 0 && lb > 0 && 1+lb <= capA &&
		zzC06MinTail(&p, i1) < p.ae[ka] && zzC06MinTail(&p, i1) <= p.lo[i1]+lb)
	vrt.Carve("C06-rplacd-nil-writes-tail-marker", op == zzC06RplacdNil && la > 0)
	vrt.Carve("C06-revappend-empty-first-appends-in-place", op == zzC06Revappend && la == 0 && lb > 0 && lb <= capA)
	for k := 0; k < 2; k++ {
		for j := 0; j < len(p.arr[k]); j++ {
			if p.free[k][j] {
				continue
			}
			f, ok := p.arr[k][j].(slip.Fixnum)
			vrt.Assert(ok, "a cell the operation may not change holds something else")
			vrt.Assert(int64(f) == p.want[k][j], "a cell the operation may not change has a different value")
		}
	}
	// every pool list still holds its slice header (values are immutable Go values): its
	// contents are therefore decided by the cells above.

	if out.class != 0 {
		vrt.Assert(!ex.dom || mayErr, "the operation signalled a condition on arguments inside its domain")
		return
	}
	if !ex.dom {
		return
	}

	// ---- (2) contents of the result ----
	if ex.chk && op != zzC06ListX {
		if ex.scal {
			if ex.snil {
				vrt.Assert(out.val == nil, "result should be nil")
			} else {
				f, ok := out.val.(slip.Fixnum)
				vrt.Assert(ok && int64(f) == ex.sv, "scalar result differs from the reference model")
			}
		} else {
			vrt.Assert(zzC06IsVals(out.val, ex.vals), "result contents differ from the cons-cell reference model")
		}
	}
	var nv slip.Object
	if ex.hasVar {
		nv = scope.Get(p.names[i1])
		vrt.Assert(zzC06IsVals(nv, ex.vvals), "the variable's new value differs from the cons-cell reference model")
	}

	// ---- (3) placement of the result ----
	vrt.Carve("C06-subseq-returns-reslice", (op == zzC06Subseq || op == zzC06Subseq1) && n < int64(capA))
	zzC06Place(&p, out.val, ex.rule, ex.ri, ex.rat, "result")
	if ex.hasVar {
		zzC06Place(&p, nv, ex.vrule, i1, ex.vat, "variable")
	}
	if twice {
		out2 := zzC06Eval(scope, form)
		vrt.Assert(out2.class == 0, "second evaluation failed")
		vrt.Assert(zzC06Disjoint(out.val, out2.val), "two calls returned lists that share cells")
	}

	// ---- (4) invariant I for pool + result ----
	ka1 := p.ae[ka]
	vrt.Carve("C06-extend-in-place-stale-prefix", inPlaceEnd > ka1)
	// a shorter rplacd result is a prefix re-slice whose spare capacity covers the old tail's cells
	vrt.Carve("C06-rplacd-shorter-exposes-cells", inPlaceEnd >= 0 && inPlaceEnd < ka1)
	zzC06InvI(&p, out.val, "result")
	if ex.hasVar {
		zzC06InvI(&p, nv, "variable")
	}
	if op == zzC06ListX {
		// the result is List{x, Tail{A}}: its own two cells are placed above; its value is checked last
		vrt.Carve("C06-listx-last-list-not-spliced", true)
		vrt.Assert(zzC06IsVals(out.val, ex.vals), "result contents differ from the cons-cell reference model")
	}
}
