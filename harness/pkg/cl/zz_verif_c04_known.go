package cl

// Known documented-arity mismatches (genuine defects of slip, see
// /verif/known_findings.d/C04.txt): one row per (function, argument count).
// Generated from a native run of the same calls VerifC04Arity makes; the
// last column shows the outcome per argument kind (typed, fixnums, nils):
// R returned, A arity condition, T other condition, G Go run-time fault,
// X other panic.  Every (function, count) not listed here stays asserted.

type zzC04KnownRow struct {
	key string
	n   int
	fam int
}

const (
	zzC04FamRejected   = 0 // a documented count is rejected by the arity check
	zzC04FamAccepted   = 1 // an undocumented count is accepted (the call returns)
	zzC04FamOtherError = 2 // an undocumented count passes the arity check and fails later with another condition
	zzC04FamGoFault    = 3 // an undocumented count passes (or there is no check) and ends in a Go run-time fault
)

var zzC04FamIDs = []string{
	"C04-arity-documented-count-rejected",
	"C04-arity-undocumented-count-accepted",
	"C04-arity-undocumented-count-other-error",
	"C04-arity-undocumented-count-go-fault",
}

var zzC04Known = []zzC04KnownRow{
	{"clos:class-metaclass", 2, 1},          // RTT
	{"clos:class-metaclass", 3, 1},          // RTT
	{"clos:class-name", 2, 1},               // RTT
	{"clos:class-name", 3, 1},               // RTT
	{"clos:class-precedence", 2, 1},         // RTT
	{"clos:class-precedence", 3, 1},         // RTT
	{"clos:class-supers", 2, 1},             // RTT
	{"clos:class-supers", 3, 1},             // RTT
	{"clos:initialize-instance", 0, 2},      // TTT
	{"clos:shared-initialize", 0, 2},        // TTT
	{"clos:shared-initialize", 1, 2},        // TTT
	{"common-lisp:-", 0, 0},                 // AAA
	{"common-lisp:/", 0, 0},                 // AAA
	{"common-lisp:/=", 0, 0},                // AAA
	{"common-lisp:<", 0, 0},                 // AAA
	{"common-lisp:<=", 0, 0},                // AAA
	{"common-lisp:=", 0, 0},                 // AAA
	{"common-lisp:>", 0, 0},                 // AAA
	{"common-lisp:>=", 0, 0},                // AAA
	{"common-lisp:apply", 1, 0},             // AAA
	{"common-lisp:case", 0, 3},              // GGG
	{"common-lisp:char-equal", 0, 0},        // AAA
	{"common-lisp:char-greaterp", 0, 0},     // AAA
	{"common-lisp:char-lessp", 0, 0},        // AAA
	{"common-lisp:char-not-equal", 0, 0},    // AAA
	{"common-lisp:char-not-greaterp", 0, 0}, // AAA
	{"common-lisp:char-not-lessp", 0, 0},    // AAA
	{"common-lisp:char/=", 0, 0},            // AAA
	{"common-lisp:char<", 0, 0},             // AAA
	{"common-lisp:char<=", 0, 0},            // AAA
	{"common-lisp:char=", 0, 0},             // AAA
	{"common-lisp:char>", 0, 0},             // AAA
	{"common-lisp:char>=", 0, 0},            // AAA
	{"common-lisp:decf", 1, 2},              // TTT
	{"common-lisp:declaim", 0, 1},           // RRR
	{"common-lisp:declaim", 2, 1},           // RRR
	{"common-lisp:declaim", 3, 1},           // RRR
	{"common-lisp:declaration", 0, 2},       // TTT
	{"common-lisp:declaration", 2, 2},       // TTT
	{"common-lisp:declaration", 3, 2},       // TTT
	{"common-lisp:declare", 0, 1},           // RRR
	{"common-lisp:declare", 2, 1},           // RRR
	{"common-lisp:declare", 3, 1},           // RRR
	{"common-lisp:defmacro", 0, 3},          // GGG
	{"common-lisp:defmacro", 1, 3},          // GTT
	{"common-lisp:defun", 0, 3},             // GGG
	{"common-lisp:defun", 1, 3},             // GTT
	{"common-lisp:digit-char", 1, 1},        // RRT
	{"common-lisp:digit-char-p", 1, 1},      // RTT
	{"common-lisp:dynamic-extent", 0, 2},    // TTT
	{"common-lisp:dynamic-extent", 2, 2},    // TTT
	{"common-lisp:dynamic-extent", 3, 2},    // TTT
	{"common-lisp:ecase", 0, 3},             // GGG
	{"common-lisp:every", 1, 0},             // AAA
	{"common-lisp:ftype", 0, 2},             // TTT
	{"common-lisp:ftype", 2, 2},             // TTT
	{"common-lisp:ftype", 3, 2},             // TTT
	{"common-lisp:funcall", 1, 0},           // AAA
	{"common-lisp:ignorable", 0, 2},         // TTT
	{"common-lisp:ignorable", 2, 2},         // TTT
	{"common-lisp:ignorable", 3, 2},         // TTT
	{"common-lisp:ignore", 0, 2},            // TTT
	{"common-lisp:ignore", 2, 2},            // TTT
	{"common-lisp:ignore", 3, 2},            // TTT
	{"common-lisp:incf", 1, 2},              // TTT
	{"common-lisp:inline", 0, 2},            // TTT
	{"common-lisp:inline", 2, 2},            // TTT
	{"common-lisp:inline", 3, 2},            // TTT
	{"common-lisp:list*", 0, 0},             // AAA
	{"common-lisp:mapc", 1, 0},              // AAA
	{"common-lisp:mapcan", 1, 0},            // AAA
	{"common-lisp:mapcar", 1, 0},            // AAA
	{"common-lisp:mapcon", 1, 0},            // AAA
	{"common-lisp:mapl", 1, 0},              // AAA
	{"common-lisp:maplist", 1, 0},           // AAA
	{"common-lisp:max", 2, 1},               // RRT
	{"common-lisp:max", 3, 1},               // RRT
	{"common-lisp:member-if", 5, 2},         // TTT
	{"common-lisp:member-if", 6, 1},         // RTT
	{"common-lisp:min", 2, 1},               // RRT
	{"common-lisp:min", 3, 1},               // RRT
	{"common-lisp:notany", 1, 0},            // AAA
	{"common-lisp:notevery", 1, 0},          // AAA
	{"common-lisp:notinline", 0, 2},         // TTT
	{"common-lisp:notinline", 2, 2},         // TTT
	{"common-lisp:notinline", 3, 2},         // TTT
	{"common-lisp:nsubst-if", 6, 1},         // RTT
	{"common-lisp:nsubst-if", 7, 1},         // RTT
	{"common-lisp:nsubstitute-if", 14, 1},   // RTT
	{"common-lisp:nsubstitute-if", 15, 1},   // RTT
	{"common-lisp:optimize", 0, 2},          // TTT
	{"common-lisp:optimize", 2, 2},          // TTT
	{"common-lisp:optimize", 3, 2},          // TTT
	{"common-lisp:proclaim", 0, 1},          // RRR
	{"common-lisp:proclaim", 2, 1},          // RRR
	{"common-lisp:proclaim", 3, 1},          // RRR
	{"common-lisp:prog1", 0, 0},             // AAA
	{"common-lisp:prog2", 0, 0},             // AAA
	{"common-lisp:prog2", 1, 0},             // AAA
	{"common-lisp:psetf", 0, 1},             // RRR
	{"common-lisp:psetf", 1, 2},             // TTT
	{"common-lisp:psetf", 3, 2},             // TTT
	{"common-lisp:psetf", 4, 2},             // TTT
	{"common-lisp:psetq", 0, 1},             // RRR
	{"common-lisp:psetq", 1, 2},             // TTT
	{"common-lisp:psetq", 3, 2},             // TTT
	{"common-lisp:psetq", 4, 2},             // TTT
	{"common-lisp:return", 0, 2},            // TTT
	{"common-lisp:return", 2, 2},            // TTT
	{"common-lisp:return", 3, 2},            // TTT
	{"common-lisp:return-from", 1, 2},       // TTT
	{"common-lisp:return-from", 3, 2},       // TTT
	{"common-lisp:return-from", 4, 2},       // TTT
	{"common-lisp:setf", 0, 1},              // RRR
	{"common-lisp:setf", 1, 2},              // TTT
	{"common-lisp:setf", 3, 2},              // TTT
	{"common-lisp:setf", 4, 2},              // TTT
	{"common-lisp:setq", 0, 1},              // RRR
	{"common-lisp:setq", 1, 2},              // TTT
	{"common-lisp:setq", 3, 2},              // TTT
	{"common-lisp:setq", 4, 2},              // TTT
	{"common-lisp:some", 1, 0},              // AAA
	{"common-lisp:special", 0, 2},           // TTT
	{"common-lisp:special", 2, 2},           // TTT
	{"common-lisp:special", 3, 2},           // TTT
	{"common-lisp:subst-if", 6, 1},          // RTT
	{"common-lisp:subst-if", 7, 1},          // RTT
	{"common-lisp:substitute-if", 14, 1},    // RTT
	{"common-lisp:substitute-if", 15, 1},    // RTT
	{"common-lisp:trace", 0, 1},             // RRR
	{"common-lisp:trace", 2, 2},             // TTT
	{"common-lisp:trace", 3, 2},             // TTT
	{"common-lisp:type", 0, 2},              // TTT
	{"common-lisp:type", 2, 2},              // TTT
	{"common-lisp:type", 3, 2},              // TTT
	{"common-lisp:untrace", 0, 1},           // RRR
	{"common-lisp:untrace", 2, 1},           // RRR
	{"common-lisp:untrace", 3, 1},           // RRR
	{"common-lisp:unwind-protect", 1, 0},    // AAA
	{"common-lisp:write-sequence", 1, 3},    // GGG
	{"generic:next-method-p", 1, 2},         // TTT
	{"generic:next-method-p", 2, 2},         // TTT
	{"generic:no-applicable-method", 0, 2},  // TTT
	{"generic:no-next-method", 0, 2},        // TTT
	{"generic:no-next-method", 1, 2},        // TTT
	{"generic:slot-missing", 0, 2},          // TTT
	{"generic:slot-missing", 1, 2},          // TTT
	{"generic:slot-missing", 2, 2},          // TTT
	{"generic:slot-missing", 3, 2},          // TTT
	{"generic:slot-unbound", 0, 2},          // TTT
	{"generic:slot-unbound", 1, 2},          // TTT
	{"generic:slot-unbound", 2, 2},          // TTT
	{"gi:containsp", 3, 2},                  // TTT
	{"gi:containsp", 4, 2},                  // TTT
	{"gi:env", 1, 1},                        // RRR
	{"gi:env", 2, 1},                        // RRR
	{"gi:mapv", 1, 0},                       // AAA
}

// zzC04KnownFam returns the family of a known mismatch or -1.
func zzC04KnownFam(key string, n int) int {
	for i := range zzC04Known {
		if zzC04Known[i].n == n && zzC04Known[i].key == key {
			return zzC04Known[i].fam
		}
	}
	return -1
}

// zzC04KnownTailRow: a built-in that accepts a keyword tail ending in a keyword
// without value (VerifC04KeyTail); variant 0 = dangling unknown keyword,
// 1 = first documented key with a value followed by the same key alone.
// fam 0: the call returns a value, fam 1: the call ends in a Go run-time fault.
type zzC04KnownTailRow struct {
	key     string
	variant int
	fam     int
}

var zzC04KnownTails = []zzC04KnownTailRow{
	{"common-lisp:adjoin", 0, 0},
	{"common-lisp:adjoin", 1, 0},
	{"common-lisp:make-hash-table", 0, 0},
	{"common-lisp:make-hash-table", 1, 0},
	{"common-lisp:nsubst-if", 1, 0},
	{"common-lisp:pathname-directory", 0, 0},
	{"common-lisp:pathname-name", 0, 0},
	{"common-lisp:pathname-type", 0, 0},
	{"common-lisp:subst-if", 1, 0},
	{"common-lisp:write", 0, 0},
	{"common-lisp:write", 1, 0},
	{"common-lisp:write-to-string", 0, 0},
	{"common-lisp:write-to-string", 1, 0},
	{"common-lisp:read-from-string", 1, 1},
	{"gi:defsystem", 0, 1},
	{"gi:defsystem", 1, 1},
	{"gi:parse-float", 1, 1},
}

// zzC04KnownTail returns the family of a known key-tail defect or -1.
func zzC04KnownTail(key string, variant int) int {
	for i := range zzC04KnownTails {
		if zzC04KnownTails[i].variant == variant && zzC04KnownTails[i].key == key {
			return zzC04KnownTails[i].fam
		}
	}
	return -1
}
