package cl

// Known documented-arity mismatches (genuine defects of slip, see
// /verif/known_findings.d/C04.txt): one row per (function, argument count).
// Generated from a native run of the same calls VerifC04Arity makes; the
// last column shows the outcome per argument kind (typed, fixnums, nils):
// R returned, A arity condition, T other condition, G Go run-time fault,
// X other panic.  Every (function, count) not listed here stays asserted.

type zzC04KnownRow struct {
	key string
	n   int
	fam int
}

const (
	zzC04FamRejected   = 0 // a documented count is rejected by the arity check
	zzC04FamAccepted   = 1 // an undocumented count is accepted (the call returns)
	zzC04FamOtherError = 2 // an undocumented count passes the arity check and fails later with another condition
	zzC04FamGoFault    = 3 // an undocumented count passes (or there is no check) and ends in a Go run-time fault
)

var zzC04FamIDs = []string{
	"C04-arity-documented-count-rejected",
	"C04-arity-undocumented-count-accepted",
	"C04-arity-undocumented-count-other-error",
	"C04-arity-undocumented-count-go-fault",
}

// All rows that were recorded here have been repaired in slip (see the
// fixed: lines of known_findings.d/C04.txt): every (function, count) is asserted.
var zzC04Known = []zzC04KnownRow{}

// zzC04KnownFam returns the family of a known mismatch or -1.
func zzC04KnownFam(key string, n int) int {
	for i := range zzC04Known {
		if zzC04Known[i].n == n && zzC04Known[i].key == key {
			return zzC04Known[i].fam
		}
	}
	return -1
}

// zzC04KnownTailRow: a built-in that accepts a keyword tail ending in a keyword
// without value (VerifC04KeyTail); variant 0 = dangling unknown keyword,
// 1 = first documented key with a value followed by the same key alone.
// fam 0: the call returns a value, fam 1: the call ends in a Go run-time fault.
type zzC04KnownTailRow struct {
	key     string
	variant int
	fam     int
}

// All recorded rows have been repaired in slip: every variant is asserted.
var zzC04KnownTails = []zzC04KnownTailRow{}

// zzC04KnownTail returns the family of a known key-tail defect or -1.
func zzC04KnownTail(key string, variant int) int {
	for i := range zzC04KnownTails {
		if zzC04KnownTails[i].variant == variant && zzC04KnownTails[i].key == key {
			return zzC04KnownTails[i].fam
		}
	}
	return -1
}
