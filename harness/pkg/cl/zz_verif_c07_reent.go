package cl

import (
	"strconv"

	"github.com/ohler55/slip"
	vrt "github.com/ohler55/slip/zzvrt"
)

// C07, re-entrancy: the same exit form (return-from / return / go) is
// evaluated again while an earlier evaluation of it is still on its way to its
// block or tag, because the cleanup of an unwind-protect it passes calls the
// function again.  Every activation has to deliver its own value to its own
// block; the cleanups run innermost activation first, each exactly once.
//
//	(progn (defun zzreS (k) BODY) (list (zzreS d) ... ))      `calls` calls
//
// shape 0  (block rb m (unwind-protect (return-from rb (+ k L)) m (if (< 0 k) (zzreS (+ k -1)) m)) m)
// shape 1  (unwind-protect (return-from zzreS (+ k L)) (if (< 0 k) (zzreS (+ k -1)) m))          function's own block
// shape 2  (dotimes (i 2) m (unwind-protect (return (+ k L)) (if (< 0 k) (zzreS (+ k -1)) m)))   nil block of the loop
// shape 3  (progn (tagbody m (unwind-protect (go tfr) (if (< 0 k) (zzreS (+ k -1)) m)) m tfr m) (+ k L))
// shape 4  (block rb (unwind-protect (return-from rb (+ k L)) (setq x (+ x (if (< 0 k) (zzreS (+ k -1)) L)))))  the value of the
//          inner activation is used by the cleanup of the outer one
// shape 5  (block rb (let ((v (+ k L))) (unwind-protect (return-from rb v) (if (< 0 k) (zzreS (+ k -1)) m))))
func VerifC07Reentrant(shape, depth, calls int) {
	g := &zzC07Gen{}
	S := zzSym
	fn := "zzre" + strconv.Itoa(shape)
	rec := func() slip.Object {
		return zzL(S("if"), zzL(S("<"), slip.Fixnum(0), S("k")), zzL(S(fn), zzL(S("+"), S("k"), slip.Fixnum(-1))), g.m())
	}
	val := func() slip.Object { return zzL(S("+"), S("k"), g.lit()) }
	var body slip.Object
	switch shape {
	case 0:
		body = zzL(S("block"), S("rb"), g.m(),
			zzL(S("unwind-protect"), zzL(S("return-from"), S("rb"), val()), g.m(), rec()), g.m())
	case 1:
		body = zzL(S("unwind-protect"), zzL(S("return-from"), S(fn), val()), rec())
	case 2:
		body = zzL(S("dotimes"), zzL(S("i"), slip.Fixnum(2)), g.m(),
			zzL(S("unwind-protect"), zzL(S("return"), val()), rec()))
	case 3:
		body = zzL(S("progn"),
			zzL(S("tagbody"), g.m(), zzL(S("unwind-protect"), zzL(S("go"), S("tfr")), rec()), g.m(), S("tfr"), g.m()),
			val())
	case 4:
		inner := zzL(S("if"), zzL(S("<"), slip.Fixnum(0), S("k")), zzL(S(fn), zzL(S("+"), S("k"), slip.Fixnum(-1))), g.lit())
		body = zzL(S("block"), S("rb"),
			zzL(S("unwind-protect"), zzL(S("return-from"), S("rb"), val()),
				zzL(S("setq"), S("x"), zzL(S("+"), S("x"), inner))))
	case 5:
		body = zzL(S("block"), S("rb"),
			zzL(S("let"), zzL(zzL(S("v"), val())),
				zzL(S("unwind-protect"), zzL(S("return-from"), S("rb"), S("v")), rec())))
	default:
		g.invalid = true
	}
	prog := slip.List{S("progn"), zzL(S("defun"), S(fn), zzL(S("k")), body)}
	lst := slip.List{S("list")}
	for i := 0; i < calls; i++ {
		lst = append(lst, g.tr(zzL(S(fn), slip.Fixnum(int64(depth-i%2)))))
	}
	prog = append(prog, lst)
	vrt.Assert(!g.invalid, "case list names an unknown shape")
	zzC07Run(g.tr(prog), g.nlit, 2)
}
