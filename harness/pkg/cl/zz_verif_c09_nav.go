package cl

import (
	"github.com/ohler55/slip"
	vrt "github.com/ohler55/slip/zzvrt"
)

// zzC09NavTails: directives placed after an argument move.  Several of them
// fetch their argument themselves (~[ ~? ~{ ...) instead of going through the
// common "next argument" helper, so an argument cursor left outside the list
// by the move is a Go index fault unless every one of them checks it.
var zzC09NavTails = []string{
	"~[a~;b~]", "~:[a~;b~]", "~@[a~]", "~?", "~@?", "~{~a~}", "~:{~a~}", "~@{~a~}", "~:@{~a~}",
	"~a", "~s", "~d", "~p", "~:p", "~@p", "~c", "~r", "~(~a~)", "~^", "~#[a~;b~]", "~v[a~;b~]", "~*", "~:*", "~@*",
	"~t", "~%", "~<~a~>", "~w", "~x", "~$", "~f", "~v%", "~#*", "~v,va",
}

// zzC09NavArg: argument kinds after the count: 0 fixnum 1, 1 the list (1 2),
// 2 the control string "~a", 3 nil, 4 the list ((1) (2)).
func zzC09NavArg(name string) slip.Object {
	switch vrt.Choice(name, 5) {
	case 0:
		return slip.Fixnum(1)
	case 1:
		return zzC09Quote(slip.List{slip.Fixnum(1), slip.Fixnum(2)})
	case 2:
		return slip.String("~a")
	case 3:
		return nil
	}
	return zzC09Quote(slip.List{slip.List{slip.Fixnum(1)}, slip.List{slip.Fixnum(2)}})
}

// VerifC09FormatNav: (format nil "<lead><move><tail>" args...) where the move
// is ~n* / ~n:* / ~n@* with the count n in -3..4 given by a v parameter
// (mv 0..2) or written into the control string (mv 3..5, "-2" for a negative
// count), lead is `lead` copies of ~a consuming arguments first, tail is
// zzC09NavTails[di], followed by nargs arguments of every kind combination.
// CLHS leaves a negative count undefined; the property only demands a value or
// a Lisp condition, never a Go fault or a hang.
func VerifC09FormatNav(mv, di, lead, nargs int) {
	n := vrt.Int("n")
	vrt.Assume(-3 <= n && n <= 4)
	k := 4
	for c := -3; c < 4; c++ {
		if n == c {
			k = c
			break
		}
	}
	var ctl []byte
	form := slip.List{slip.Symbol("format"), nil, nil}
	for i := 0; i < lead; i++ {
		ctl = append(ctl, '~', 'a')
		form = append(form, slip.Fixnum(int64(5+i)))
	}
	ctl = append(ctl, '~')
	if mv < 3 {
		ctl = append(ctl, 'v')
		form = append(form, slip.Fixnum(int64(k)))
	} else {
		if k < 0 {
			ctl = append(ctl, '-', byte('0'-k))
		} else {
			ctl = append(ctl, byte('0'+k))
		}
	}
	switch mv % 3 {
	case 1:
		ctl = append(ctl, ':')
	case 2:
		ctl = append(ctl, '@')
	}
	ctl = append(ctl, '*')
	ctl = append(ctl, zzC09NavTails[di]...)
	form[2] = slip.String(ctl)
	for i := 0; i < nargs; i++ {
		form = append(form, zzC09NavArg("arg"+string(rune('0'+i))))
	}
	zzC09Streams()
	zzC09Guarded(slip.NewScope(), form, zzC09FmtDecis)
}
