package cl

import (
	"math"
	"math/big"

	"github.com/ohler55/slip"
	vrt "github.com/ohler55/slip/zzvrt"
)

// ---- C05 extension, part 4: gcd/lcm, expt, isqrt, rounding divisions of ratios,
// incf/decf of bignum/ratio places, rational/rationalize/float conversions ----

func zzC05YB(v int64) *big.Int { return big.NewInt(v) }

// zzC05YPow: base^n (n >= 0) by repeated multiplication (the oracle of expt).
func zzC05YPow(base *big.Int, n int) *big.Int {
	z := big.NewInt(1)
	for i := 0; i < n; i++ {
		z = new(big.Int).Mul(z, base)
	}
	return z
}

func zzC05YIntGridList() []*big.Int {
	p, b := zzC05XPow2, zzC05YB
	add := func(a *big.Int, d int64) *big.Int { return new(big.Int).Add(a, b(d)) }
	neg := func(a *big.Int) *big.Int { return new(big.Int).Neg(a) }
	mul := func(a, c *big.Int) *big.Int { return new(big.Int).Mul(a, c) }
	m61 := add(p(61), -1)
	return []*big.Int{
		b(0), b(1), b(-1), b(2), b(-6), b(12), b(30030), neg(p(31)), p(32), p(62), // 0..9
		add(p(63), -1), neg(p(63)), p(63), p(64), add(p(64), 1), add(p(64), -1), neg(p(64)), // 10..16
		zzC05YPow(b(10), 20), mul(b(30030), p(64)), mul(b(3), p(100)), m61, mul(b(6), m61), // 17..21
		b(3037000500), b(3037000499), // 22 23
	}
}

var zzC05YInts = zzC05YIntGridList()

// sub-grid (indices into zzC05YInts) for the second and third operand of the 3-argument calls
var zzC05YSub = []int{0, 4, 5, 6, 11, 13, 22}

func zzC05YAbs(v *big.Int) *big.Int { return new(big.Int).Abs(v) }

// VerifC05YGcd: (gcd ...) / (lcm ...) with n = 0..3 concrete integer arguments from the
// grid: first from the case, the others from a concrete choice. Oracle: math/big GCD on the
// magnitudes, lcm(a,b) = |a|/gcd*|b| (0 when an operand is 0).
func VerifC05YGcd(fn int, n int, i int) {
	var vals []*big.Int
	if n >= 1 {
		vals = append(vals, zzC05YInts[i])
	}
	if n == 2 {
		vals = append(vals, zzC05YInts[vrt.Choice("j", len(zzC05YInts))])
	}
	if n == 3 {
		vals = append(vals, zzC05YInts[zzC05YSub[vrt.Choice("j", len(zzC05YSub))]])
		vals = append(vals, zzC05YInts[zzC05YSub[vrt.Choice("k", len(zzC05YSub))]])
	}
	args := make([]slip.Object, len(vals))
	anyBig, anyMin, lcmOver := false, false, false
	want := big.NewInt(0)
	if fn == 1 {
		want = big.NewInt(1)
	}
	for ix, v := range vals {
		args[ix] = zzC05XInt(new(big.Int).Set(v))
		if !zzC05Fits(v) {
			anyBig = true
		}
		if v.Cmp(zzC05Min64) == 0 {
			anyMin = true
		}
		a := zzC05YAbs(v)
		if fn == 0 {
			want = new(big.Int).GCD(nil, nil, want, a)
		} else if want.Sign() != 0 {
			if a.Sign() == 0 {
				want = big.NewInt(0)
			} else {
				if ix > 0 && !zzC05Fits(new(big.Int).Mul(want, a)) {
					lcmOver = true // the machine product z*num of the implementation wraps
				}
				g := new(big.Int).GCD(nil, nil, want, a)
				want = new(big.Int).Mul(new(big.Int).Quo(want, g), a)
			}
		}
	}
	vrt.Carve("C05-y-gcd-lcm-bignum-operand", anyBig)
	vrt.Carve("C05-y-gcd-lcm-most-negative-fixnum", !anyBig && anyMin)
	vrt.Carve("C05-y-lcm-fixnum-overflow", fn == 1 && !anyBig && !anyMin && lcmOver)
	name := []string{"gcd", "lcm"}[fn]
	out := zzC05Call(name, args...)
	vrt.Reach("called")
	vrt.Assert(out.class == 0, "gcd/lcm of integers signalled instead of returning")
	got, ok := zzC05Value(out.one)
	_, isRatio := out.one.(*slip.Ratio)
	vrt.Assert(ok && !isRatio, "gcd/lcm result is not an integer")
	vrt.Assert(got.Sign() >= 0, "gcd/lcm result is negative")
	vrt.Assert(got.Cmp(want) == 0, "gcd/lcm result is not the exact value")
	_, isFix := out.one.(slip.Fixnum)
	vrt.Assert(isFix == zzC05Fits(got), "gcd/lcm result is not canonical (fixnum iff it fits)")
	for ix, v := range vals {
		vrt.Assert(zzC05Unchanged(args[ix], v), "an operand was altered")
	}
}

// VerifC05YGcdSym: identities with a fully symbolic fixnum x:
// mode 0 (f x) = |x|; 1 (f x 0): gcd |x|, lcm 0; 2 (f x x) = |x| (lcm: |x| < 2^16);
// 3 (f x 1): gcd 1, lcm |x|; 4 (f 0 x): gcd |x|, lcm 0; 5 (f x -1): gcd 1, lcm |x|.
func VerifC05YGcdSym(fn int, mode int) {
	x := vrt.Int64("x")
	vx := big.NewInt(x)
	ax := zzC05YAbs(vx)
	if fn == 1 && mode == 2 {
		vrt.Assume(-(1<<16) < x && x < (1<<16))
	}
	var args []slip.Object
	want := ax
	switch mode {
	case 0:
		args = []slip.Object{slip.Fixnum(x)}
	case 1:
		args = []slip.Object{slip.Fixnum(x), slip.Fixnum(0)}
		if fn == 1 {
			want = big.NewInt(0)
		}
	case 2:
		args = []slip.Object{slip.Fixnum(x), slip.Fixnum(x)}
	case 3, 5:
		args = []slip.Object{slip.Fixnum(x), slip.Fixnum(int64(4 - mode))}
		if fn == 0 {
			want = big.NewInt(1)
		}
	case 4:
		args = []slip.Object{slip.Fixnum(0), slip.Fixnum(x)}
		if fn == 1 {
			want = big.NewInt(0)
		}
	}
	vrt.Carve("C05-y-gcd-lcm-most-negative-fixnum", x == math.MinInt64)
	out := zzC05Call([]string{"gcd", "lcm"}[fn], args...)
	vrt.Reach("called")
	vrt.Assert(out.class == 0, "gcd/lcm of fixnums signalled instead of returning")
	got, ok := zzC05Value(out.one)
	vrt.Assert(ok, "gcd/lcm result is not an integer")
	vrt.Assert(got.Sign() >= 0, "gcd/lcm result is negative")
	vrt.Assert(got.Cmp(want) == 0, "gcd/lcm identity does not hold")
}

// ---- expt ----

var zzC05YExps = []int{0, 1, 2, 3, 10, 18, 39, 62, 63, 64, 100, -1, -2, -63}

func zzC05YExptBases() []zzC05Q {
	p, b := zzC05XPow2, zzC05YB
	one := b(1)
	return []zzC05Q{
		{b(0), one}, {b(1), one}, {b(-1), one}, {b(2), one}, {b(-2), one}, {b(3), one}, {b(-3), one}, // 0..6
		{b(10), one}, {b(-10), one}, {p(31), one}, {new(big.Int).Add(p(32), one), one}, {p(64), one}, // 7..11
		{new(big.Int).Neg(p(64)), one},   // 12
		{b(1), b(2)}, {b(-2), b(3)}, {b(3), b(2)}, // 13..15
	}
}

var zzC05YBases = zzC05YExptBases()

func zzC05YObj(q zzC05Q) slip.Object {
	if q.d.Cmp(big.NewInt(1)) == 0 {
		return zzC05XInt(new(big.Int).Set(q.n))
	}
	return (*slip.Ratio)(new(big.Rat).SetFrac(new(big.Int).Set(q.n), new(big.Int).Set(q.d)))
}

var zzC05YTwo53 = zzC05XPow2(53)

// VerifC05YExpt: (expt base e) for a concrete rational base (case) and a concrete integer
// exponent (choice): exact integer / ratio, canonical, base unchanged.
func VerifC05YExpt(bi int) {
	base := zzC05YBases[bi]
	e := zzC05YExps[vrt.Choice("e", len(zzC05YExps))]
	bo := zzC05YObj(base)
	isInt := base.d.Cmp(big.NewInt(1)) == 0
	isFix := isInt && zzC05Fits(base.n)
	unit := isInt && zzC05YAbs(base.n).Cmp(big.NewInt(1)) == 0
	if e < 0 && base.n.Sign() == 0 {
		vrt.Carve("C05-y-expt-negative-exponent-float", true)
		out := zzC05Call("expt", bo, slip.Fixnum(e))
		vrt.Reach("called")
		vrt.Assert(out.class == 1, "(expt 0 negative) is not a Lisp condition")
		return
	}
	ae := e
	if ae < 0 {
		ae = -ae
	}
	want := zzC05Q{zzC05YPow(base.n, ae), zzC05YPow(base.d, ae)}
	if e < 0 {
		want = zzC05Q{want.d, want.n}
		if want.d.Sign() < 0 {
			want.n.Neg(want.n)
			want.d.Neg(want.d)
		}
	}
	vrt.Carve("C05-y-expt-bignum-or-ratio-base-float", !isFix)
	vrt.Carve("C05-y-expt-fixnum-negative-exponent-float", isFix && e < 0 && !unit)
	vrt.Carve("C05-y-expt-through-float", isFix && e >= 0 && (zzC05YAbs(want.n).Cmp(zzC05YTwo53) > 0 || (base.n.Sign() == 0 && e > 0)))
	out := zzC05Call("expt", bo, slip.Fixnum(e))
	vrt.Reach("called")
	vrt.Assert(out.class == 0, "expt of a rational and an integer signalled")
	got, _, ok := zzC05XRatValue(out.one)
	vrt.Assert(ok, "power of a rational to an integer is not a rational")
	vrt.Assert(got.d.Sign() > 0 && zzC05QCmp(got, want) == 0, "power is not the exact value")
	lowest, intIsInt, fixIffFits := zzC05XCanonical(out.one)
	vrt.Assert(lowest && intIsInt && fixIffFits, "power is not in canonical form")
	vrt.Assert(zzC05XRatSame(bo, base), "the base was altered")
}

// ---- isqrt ----

func zzC05YRoots() []*big.Int {
	p, b := zzC05XPow2, zzC05YB
	return []*big.Int{b(1), b(2), p(26), b(94906265), b(94906266), p(31), b(3037000499), p(32), p(53), p(63), zzC05YPow(b(10), 20)}
}

var zzC05YKs = zzC05YRoots()

// VerifC05YIsqrt: n = k^2 + off (k from the grid, off in -1..1), negated when neg = 1.
func VerifC05YIsqrt(ki int, off int, neg int) {
	k := zzC05YKs[ki]
	n := new(big.Int).Add(new(big.Int).Mul(k, k), big.NewInt(int64(off)))
	if neg == 1 {
		n.Neg(n)
		vrt.Assume(n.Sign() < 0)
	}
	no := zzC05XInt(new(big.Int).Set(n))
	fits := zzC05Fits(n)
	if n.Sign() < 0 {
		vrt.Carve("C05-y-isqrt-negative-bignum-go-panic", !fits)
		out := zzC05Call("isqrt", no)
		vrt.Reach("called")
		vrt.Assert(out.class == 1, "isqrt of a negative integer is not a Lisp condition")
		vrt.Assert(zzC05Unchanged(no, n), "the operand was altered")
		return
	}
	vrt.Carve("C05-y-isqrt-fixnum-through-float", fits && n.Cmp(zzC05XPow2(52)) > 0)
	out := zzC05Call("isqrt", no)
	vrt.Reach("called")
	vrt.Assert(out.class == 0, "isqrt of a non-negative integer signalled")
	r, ok := zzC05Value(out.one)
	_, isRatio := out.one.(*slip.Ratio)
	vrt.Assert(ok && !isRatio, "isqrt result is not an integer")
	r1 := new(big.Int).Add(r, big.NewInt(1))
	vrt.Assert(r.Sign() >= 0 && new(big.Int).Mul(r, r).Cmp(n) <= 0 && new(big.Int).Mul(r1, r1).Cmp(n) > 0,
		"isqrt result r does not satisfy r*r <= n < (r+1)^2")
	vrt.Carve("C05-y-isqrt-bignum-in-place", !fits)
	_, isFix := out.one.(slip.Fixnum)
	vrt.Assert(isFix == zzC05Fits(r), "isqrt result is not canonical (fixnum iff it fits)")
	vrt.Assert(zzC05Unchanged(no, n), "the operand was altered")
}

// ---- floor ceiling truncate round mod rem with ratio operands ----

func zzC05YRatGrid() []zzC05Q {
	p, b := zzC05XPow2, zzC05YB
	one := b(1)
	return []zzC05Q{
		{b(0), one}, {b(1), one}, {b(-1), one}, {b(2), one}, {b(-3), one}, {p(64), one}, // 0..5 integers
		{b(1), b(2)}, {b(-1), b(2)}, {b(3), b(2)}, {b(-3), b(2)}, {b(5), b(2)}, {b(-5), b(2)}, // 6..11
		{b(7), b(3)}, {b(-7), b(3)}, {b(1), b(3)}, {b(-1), b(3)}, {p(64), b(3)}, // 12..16
		{new(big.Int).Neg(new(big.Int).Add(p(64), one)), b(2)}, {b(22), b(7)}, // 17 18
	}
}

var zzC05YRats = zzC05YRatGrid()

var zzC05YDivs = []string{"floor", "ceiling", "truncate", "round", "mod", "rem"}

// VerifC05YRatDiv: (fn x y). x: kind xk as in zzC05XRatOperand (0 symbolic fixnum, 1
// symbolic bignum, 2 symbolic numerator over the concrete denominator xd) or 4: the concrete
// rational zzC05YRats[xn]; y = zzC05YRats[yi].
func VerifC05YRatDiv(fn int, xk int, xd int, xn int, yi int) {
	var x slip.Object
	var qx zzC05Q
	if xk == 4 {
		qx = zzC05YRats[xn]
		x = zzC05YObj(qx)
	} else {
		x, qx = zzC05XRatOperand("x", xk, 0, big.NewInt(int64(xd)))
		if xk == 1 {
			vrt.Assume(!zzC05Fits(qx.n))
		}
	}
	qy := zzC05YRats[yi]
	y := zzC05YObj(qy)
	name := zzC05YDivs[fn]
	isRatQ := func(q zzC05Q) bool { return q.d.Cmp(big.NewInt(1)) != 0 }
	xBig := xk == 1 || (xk == 4 && !isRatQ(qx) && !zzC05Fits(qx.n))
	yBig := !isRatQ(qy) && !zzC05Fits(qy.n)
	vrt.Carve("C05-bignum-with-ratio-goes-float", (xBig && isRatQ(qy)) || (yBig && (isRatQ(qx) || xk == 2)))
	vrt.Carve("C05-y-mod-rem-ratio-goes-float", fn >= 4)
	if qy.n.Sign() == 0 {
		out := zzC05Call(name, x, y)
		vrt.Reach("called")
		vrt.Assert(out.class == 1, "division of a ratio by zero is not a Lisp condition")
		return
	}
	kind := fn
	if fn == 4 {
		kind = 0
	} else if fn == 5 {
		kind = 2
	}
	a, b := new(big.Int).Mul(qx.n, qy.d), new(big.Int).Mul(qx.d, qy.n)
	wq, wr := zzC05RefDiv(kind, a, b)
	wantR := zzC05Q{wr, new(big.Int).Mul(qx.d, qy.d)} // x - q*y
	out := zzC05Call(name, x, y)
	vrt.Reach("called")
	vrt.Assert(out.class == 0, "rounding division of rationals signalled")
	var ro slip.Object
	if fn < 4 {
		vrt.Assert(len(out.vals) == 2, "rounding division does not return two values")
		q, ok := zzC05Value(out.vals[0])
		_, isRatio := out.vals[0].(*slip.Ratio)
		vrt.Assert(ok && !isRatio, "quotient is not an integer")
		vrt.Assert(q.Cmp(wq) == 0, "quotient is not the mathematically defined rounding of x/y")
		ro = out.vals[1]
	} else {
		ro = out.one
	}
	gr, _, ok := zzC05XRatValue(ro)
	vrt.Assert(ok, "remainder is not a rational")
	vrt.Assert(gr.d.Sign() > 0 && zzC05QCmp(gr, wantR) == 0, "remainder is not x - q*y exactly")
	vrt.Assert(zzC05XRatSame(x, qx) && zzC05XRatSame(y, qy), "an operand was altered")
	if fn < 4 {
		_, isFix := out.vals[0].(slip.Fixnum)
		vrt.Carve("C05-y-ratio-division-quotient-bignum", zzC05Fits(wq))
		vrt.Assert(isFix == zzC05Fits(wq), "quotient is not canonical (fixnum iff it fits)")
	}
	vrt.Carve("C05-y-ratio-division-remainder-noncanonical", (wr.Sign() != 0 || fn == 2 || fn == 3) && new(big.Int).Rem(wantR.n, wantR.d).Sign() == 0)
	lowest, intIsInt, fixIffFits := zzC05XCanonical(ro)
	vrt.Assert(lowest, "remainder is not in lowest terms")
	vrt.Assert(intIsInt, "integer-valued remainder is a ratio")
	vrt.Assert(fixIffFits, "integer remainder is not canonical (fixnum iff it fits)")
}

// ---- incf / decf ----

func zzC05YEval(scope *slip.Scope, form slip.Object) (out zzC05Out) {
	defer func() {
		if rec := recover(); rec != nil {
			switch tr := rec.(type) {
			case *slip.Panic:
				out.class = 1
				if tr.Value != nil {
					out.class = 3
				}
			case slip.Instance:
				out.class = 1
			case interface{ RuntimeError() }:
				out.class = 3
			default:
				out.class = 4
			}
		}
	}()
	out.one = scope.Eval(form, 0)
	return
}

// VerifC05YIncf: (incf place delta) / (decf place delta); place holds a fixnum (pk 0),
// bignum (1) or ratio with symbolic numerator over the denominator pd (2); delta likewise;
// form 0: the place is a variable, 1: (car l), 2: no delta argument (default 1).
func VerifC05YIncf(fn int, pk int, pd int, dk int, dd int, form int) {
	p, qp := zzC05XRatOperand("p", pk, 0, big.NewInt(int64(pd)))
	d, qd := zzC05XRatOperand("d", dk, 0, big.NewInt(int64(dd)))
	if pk == 1 {
		vrt.Assume(!zzC05Fits(qp.n))
	}
	if dk == 1 {
		vrt.Assume(!zzC05Fits(qd.n))
	}
	if form == 2 {
		qd = zzC05QInt(big.NewInt(1))
	}
	want := zzC05QOp(fn, qp, qd)
	wantInt := new(big.Int).Rem(want.n, want.d).Sign() == 0
	vrt.Carve("C05-bignum-with-ratio-goes-float", form != 2 && ((pk == 1 && dk == 2) || (pk == 2 && dk == 1)))
	vrt.Carve("C05-y-decf-most-negative-fixnum-delta", fn == 1 && dk == 0 && form != 2 && qd.n.Cmp(zzC05Min64) == 0)
	scope := slip.NewScope()
	name := slip.Symbol([]string{"incf", "decf"}[fn])
	var f slip.Object
	var cell slip.List
	switch form {
	case 0:
		scope.Let(slip.Symbol("x"), p)
		scope.Let(slip.Symbol("d"), d)
		f = slip.List{name, slip.Symbol("x"), slip.Symbol("d")}
	case 1:
		cell = slip.List{p, slip.Fixnum(7)}
		scope.Let(slip.Symbol("l"), cell)
		scope.Let(slip.Symbol("d"), d)
		f = slip.List{name, slip.List{slip.Symbol("car"), slip.Symbol("l")}, slip.Symbol("d")}
	default:
		scope.Let(slip.Symbol("x"), p)
		f = slip.List{name, slip.Symbol("x")}
	}
	out := zzC05YEval(scope, f)
	vrt.Reach("called")
	vrt.Assert(out.class == 0, "incf/decf of a rational place signalled")
	got, _, ok := zzC05XRatValue(out.one)
	vrt.Assert(ok, "incf/decf result is not a rational")
	vrt.Assert(got.d.Sign() > 0 && zzC05QCmp(got, want) == 0, "incf/decf result is not the exact value")
	var now slip.Object
	if form == 1 {
		now = scope.Get(slip.Symbol("l")).(slip.List)[0]
	} else {
		now = scope.Get(slip.Symbol("x"))
	}
	gn, _, ok2 := zzC05XRatValue(now)
	vrt.Assert(ok2 && gn.d.Sign() > 0 && zzC05QCmp(gn, want) == 0, "the place does not hold the exact new value")
	vrt.Assert(zzC05XRatSame(p, qp), "the object previously held by the place was altered")
	if form != 2 {
		vrt.Assert(zzC05XRatSame(d, qd), "the delta object was altered")
	}
	vrt.Carve("C05-noncanonical-bignum-result", wantInt && (pk == 1 || dk == 1) && zzC05Fits(new(big.Int).Quo(want.n, want.d)))
	lowest, intIsInt, fixIffFits := zzC05XCanonical(now)
	vrt.Assert(lowest, "new value is not in lowest terms")
	vrt.Assert(intIsInt, "integer-valued new value is a ratio")
	vrt.Assert(fixIffFits, "integer new value is not canonical (fixnum iff it fits)")
}

// ---- rational / rationalize / float / coerce ----

var zzC05YFloats = []float64{0.5, 0.1, 1e20, 9007199254740994, -0.75, 2.0, 0.0, 1e-5, 123456789.125, -9223372036854775808, 1.0 / 3.0, 3.5, -1e15, 5e-324, 1e300}

// zzC05YExact: the exact value of a finite float64 as a fraction m*2^e.
func zzC05YExact(f float64) zzC05Q {
	m, e := math.Frexp(f)
	mi := int64(m * (1 << 53)) // exact: |m| < 1 has 53 significant bits
	n, d := big.NewInt(mi), big.NewInt(1)
	e -= 53
	if e >= 0 {
		n.Lsh(n, uint(e))
	} else {
		d.Lsh(d, uint(-e))
	}
	return zzC05Q{n, d}
}

func zzC05YFloatOf(o slip.Object) (float64, bool) {
	switch t := o.(type) {
	case slip.SingleFloat:
		return float64(t), true
	case slip.DoubleFloat:
		return float64(t), true
	case *slip.LongFloat:
		f, acc := (*big.Float)(t).Float64()
		return f, acc == big.Exact
	}
	return 0, false
}

func zzC05YExactRats() []zzC05Q {
	p, b := zzC05XPow2, zzC05YB
	one := b(1)
	return []zzC05Q{
		{b(0), one}, {b(1), one}, {b(-5), one}, {p(53), one}, {new(big.Int).Add(p(53), b(2)), one}, {new(big.Int).Neg(p(63)), one}, // 0..5
		{p(64), one}, {zzC05YPow(b(10), 20), one}, {p(100), one}, // 6..8
		{b(1), b(2)}, {b(-3), b(4)}, {new(big.Int).Add(p(52), one), p(60)}, {b(5), p(70)}, {new(big.Int).Neg(new(big.Int).Add(p(40), one)), p(3)}, // 9..13
		{b(1 << 24), one}, {b(-7), b(8)}, // 14 15 (exact in single-float too)
	}
}

var zzC05YExacts = zzC05YExactRats()

// VerifC05YConv: fn 0 rational / 1 rationalize of the double-float grid[i]; 2 / 3 the same of
// the single-float nearest to grid[i]; 4 (float q) 5 (coerce q 'float) 6 (coerce q 'double-float)
// 7 (float q 1.0s0) for the exactly representable rational zzC05YExacts[i].
func VerifC05YConv(fn int, i int) {
	if fn < 4 {
		f := zzC05YFloats[i]
		var fo slip.Object = slip.DoubleFloat(f)
		if fn >= 2 {
			f = float64(float32(f))
			fo = slip.SingleFloat(f)
			vrt.Assume(f <= math.MaxFloat32 && f >= -math.MaxFloat32)
		}
		exact := zzC05YExact(f)
		out := zzC05Call([]string{"rational", "rationalize"}[fn%2], fo)
		vrt.Reach("called")
		vrt.Assert(out.class == 0, "rational/rationalize of a finite float signalled")
		got, _, ok := zzC05XRatValue(out.one)
		vrt.Assert(ok, "rational/rationalize result is not a rational")
		if fn%2 == 0 {
			vrt.Assert(got.d.Sign() > 0 && zzC05QCmp(got, exact) == 0, "rational of a float is not its exact value")
		}
		// conversion back gives the same float
		var back zzC05Out
		if fn >= 2 {
			back = zzC05Call("float", out.one, slip.SingleFloat(1))
		} else {
			back = zzC05Call("float", out.one)
		}
		// 1/3 needs 16 significant decimal digits, 5e-324 is below the 1e-18 the decimal loop reaches
		vrt.Carve("C05-y-rationalize-not-within-float-accuracy", fn == 1 && i == 10)
		vrt.Carve("C05-y-rationalize-beyond-decimal-loop-scaled", (fn == 1 && i == 13) || (fn == 3 && i == 7))
		vrt.Assert(back.class == 0, "float of the rational signalled")
		bf, okf := zzC05YFloatOf(back.one)
		vrt.Assert(okf && bf == f, "converting the rational back does not give the same float")
		vrt.Carve("C05-y-rational-of-float-noncanonical", new(big.Int).Rem(exact.n, exact.d).Sign() == 0 && (fn != 0))
		lowest, intIsInt, fixIffFits := zzC05XCanonical(out.one)
		vrt.Assert(lowest, "rational result is not in lowest terms")
		vrt.Assert(intIsInt, "integer-valued rational result is a ratio")
		vrt.Assert(fixIffFits, "integer rational result is not canonical (fixnum iff it fits)")
		return
	}
	q := zzC05YExacts[i]
	qo := zzC05YObj(q)
	var out zzC05Out
	switch fn {
	case 4:
		out = zzC05Call("float", qo)
	case 5:
		out = zzC05Call("coerce", qo, slip.List{slip.Symbol("quote"), slip.Symbol("float")})
	case 6:
		out = zzC05Call("coerce", qo, slip.List{slip.Symbol("quote"), slip.Symbol("double-float")})
	case 7:
		out = zzC05Call("float", qo, slip.SingleFloat(1))
	}
	vrt.Reach("called")
	vrt.Assert(out.class == 0, "conversion of a rational to a float signalled")
	f, ok := zzC05YFloatOf(out.one)
	vrt.Assert(ok, "conversion result is not a float")
	vrt.Assert(f == f && f <= math.MaxFloat64 && f >= -math.MaxFloat64 && zzC05QCmp(zzC05YExact(f), q) == 0, "an exactly representable rational does not convert to the float of the same value")
	vrt.Assert(zzC05XRatSame(qo, q), "the operand was altered")
}
