package clos

import (
	"sync"

	"github.com/ohler55/slip"
	vrt "github.com/ohler55/slip/zzvrt"
)

// ---- C17 (iii): a synchronized instance guards every slot access with one mutex ----

func zzC17Eval(scope *slip.Scope, src string) (res slip.Object) {
	defer func() { _ = recover() }()
	return slip.ReadString(src, scope).Eval(scope, nil)
}

var zzC17SyncOps = []string{
	"(slot-value zzi 'a)",
	"(setf (slot-value zzi 'a) 5)",
	"(zzc17-a zzi)",
	"(setf (zzc17-a zzi) 6)",
	"(slot-boundp zzi 'a)",
	"(slot-makunbound zzi 'a)",
	"(progn (set-synchronized zzi t) (setf (slot-value zzi 'a) 7))",
	"(progn (set-synchronized zzi t) (set-synchronized zzi t) (slot-value zzi 'a))",
	"(synchronizedp zzi)",
}

// VerifC17Sync: after (set-synchronized i t) every access to the instance's
// slot table happens under the instance's mutex — the one installed first: a
// later (set-synchronized i t) must not replace it.
func VerifC17Sync(op int) {
	scope := slip.NewScope()
	zzC17Eval(scope, "(defclass zzc17k () ((a :initform 1 :accessor zzc17-a)))")
	zzC17Eval(scope, "(setq zzi (make-instance 'zzc17k))")
	zzC17Eval(scope, "(set-synchronized zzi t)")
	obj, _ := scope.Get(slip.Symbol("zzi")).(*StandardObject)
	if obj == nil {
		vrt.Unsupported("instance not created")
		return
	}
	if vrt.Symbolic() {
		vrt.GuardField(obj.vars, &obj.HasSlots, "locker", "instance slots")
		held := vrt.HeldLocks()
		zzC17Eval(scope, zzC17SyncOps[op])
		vrt.Reach("ran")
		vrt.Assert(vrt.GuardViolations() == 0, "slot table of a synchronized instance accessed without its mutex")
		vrt.Assert(vrt.HeldLocks() == held, "the instance mutex is still held after the operation")
		return
	}
	var wg sync.WaitGroup
	for g := 0; g < 2; g++ {
		wg.Add(1)
		go func() {
			defer wg.Done()
			s := slip.NewScope()
			s.Let(slip.Symbol("zzi"), obj)
			for i := 0; i < 200; i++ {
				zzC17Eval(s, zzC17SyncOps[op])
				zzC17Eval(s, zzC17SyncOps[1])
			}
		}()
	}
	wg.Wait()
}
