package clos

import (
	"strconv"

	"github.com/ohler55/slip"
	vrt "github.com/ohler55/slip/zzvrt"
)

// ---- C12: CLOS classes: precedence, slots and initialisation are order-independent ----
//
// The harness owns a small *written* model of a class family (zzC12Model): for
// every class the list of direct superclasses as written and, for the two
// slots sa and sb, the slot options as written.  The defclass forms are built
// from that model and evaluated through the real registry in a chosen order;
// the oracle (zzC12Prec, zzC12SlotOracle) is computed from the model only.

const (
	zzC12Carve1 = "C12-initarg-multi-slot"
	zzC12Carve2 = "C12-redef-indirect-subclass-stale"
	zzC12Carve3 = "C12-redef-forward-super-subclass-stale"
)

// zzC12SlotDef is one slot specifier as written in one defclass form.
type zzC12SlotDef struct {
	present bool
	ia      int // 0 no initarg, 1 own initarg (:ka for sa, :kb for sb), 2 the shared initarg :k
	hasForm bool
	form    int64 // symbolic
}

// zzC12ClassDef is one defclass form as written.
type zzC12ClassDef struct {
	supers []int
	slot   [2]zzC12SlotDef
	acc    bool // every present slot gets :reader, :writer and :accessor
	ghost  int  // 0 none; 1 / 2: a superclass name that is never defined is written last / first
}

type zzC12Model struct {
	n     int
	pfx   string
	defs  []zzC12ClassDef // final definitions (after the optional redefinition)
	orig  zzC12ClassDef   // original definition of class r when redefined
	r     int             // redefined class or -1
	rq    int             // redefinition position selector
	meth  int             // bit k: a method of the generic function who is specialised on class k
	bef   int             // bit k: a :before method of who on class k pushes k's name on a trace
	names []string
}

var zzC12SlotNames = [2]string{"sa", "sb"}
var zzC12ArgNames = [3]string{":ka", ":kb", ":k"}

func zzC12SuperCount(n, i int) int {
	m := n - 1 - i
	return 1 + m + m*(m-1)
}

// zzC12Supers decodes the k-th ordered list of at most two distinct classes
// among i+1 .. n-1.
func zzC12Supers(n, i, k int) []int {
	m := n - 1 - i
	if k == 0 {
		return []int{}
	}
	if k <= m {
		return []int{i + k}
	}
	idx := k - 1 - m
	first := idx / (m - 1)
	second := idx % (m - 1)
	if first <= second {
		second++
	}
	return []int{i + 1 + first, i + 1 + second}
}

func zzC12Slots(code int, tag string, acc bool) (cd zzC12ClassDef) {
	for s := 0; s < 2; s++ {
		c := code % 7
		code /= 7
		if c == 0 {
			continue
		}
		c--
		cd.slot[s].present = true
		cd.slot[s].ia = c % 3
		if c/3 == 1 {
			cd.slot[s].hasForm = true
			cd.slot[s].form = vrt.Int64("form-" + tag + "-" + zzC12SlotNames[s])
		}
	}
	cd.acc = acc
	return
}

// zzC12Decode builds the written model from the case parameters.
func zzC12Decode(n, shape, prof, redef, opts int) *zzC12Model {
	m := zzC12Model{n: n, r: -1}
	acc := opts & 1
	m.meth = (opts >> 1) & (1<<n - 1)
	m.bef = (opts >> (1 + n)) & (1<<n - 1)
	m.pfx = "zk" + strconv.Itoa(n) + "x" + strconv.Itoa(shape) + "x" + strconv.Itoa(prof) + "x" + strconv.Itoa(redef+1) + "x" + strconv.Itoa(opts)
	for i := 0; i < n; i++ {
		cnt := zzC12SuperCount(n, i)
		cd := zzC12Slots(prof%49, strconv.Itoa(i), acc != 0)
		prof /= 49
		cd.supers = zzC12Supers(n, i, shape%cnt)
		shape /= cnt
		m.defs = append(m.defs, cd)
	}
	if 0 <= redef {
		m.r = redef % n
		redef /= n
		cnt := zzC12SuperCount(n, m.r)
		nd := zzC12Slots((redef/cnt)%49, "re", acc != 0)
		nd.supers = zzC12Supers(n, m.r, redef%cnt)
		redef /= cnt * 49
		m.rq = redef % n
		m.orig = m.defs[m.r]
		m.orig.ghost = (redef / n) % 3
		m.defs[m.r] = nd
	}
	return &m
}

func (m *zzC12Model) setNames(trial int) {
	m.names = m.names[:0]
	for i := 0; i < m.n; i++ {
		m.names = append(m.names, m.pfx+"t"+strconv.Itoa(trial)+"-"+string(rune('a'+i)))
	}
}

func (m *zzC12Model) fnName(kind string, class, slot int) string {
	return m.names[class] + "-" + kind + zzC12SlotNames[slot]
}

func zzC12Quote(name string) slip.Object {
	return slip.List{slip.Symbol("quote"), slip.Symbol(name)}
}

// form builds the defclass form of class i from a written definition.
func (m *zzC12Model) form(i int, cd *zzC12ClassDef) slip.Object {
	supers := slip.List{}
	if cd.ghost == 2 {
		supers = append(supers, slip.Symbol(m.names[i]+"-ghost"))
	}
	for _, j := range cd.supers {
		supers = append(supers, slip.Symbol(m.names[j]))
	}
	if cd.ghost == 1 {
		supers = append(supers, slip.Symbol(m.names[i]+"-ghost"))
	}
	specs := slip.List{}
	for s := 0; s < 2; s++ {
		sd := &cd.slot[s]
		if !sd.present {
			continue
		}
		spec := slip.List{slip.Symbol(zzC12SlotNames[s])}
		switch sd.ia {
		case 1:
			spec = append(spec, slip.Symbol(":initarg"), slip.Symbol(zzC12ArgNames[s]))
		case 2:
			spec = append(spec, slip.Symbol(":initarg"), slip.Symbol(zzC12ArgNames[2]))
		}
		if sd.hasForm {
			spec = append(spec, slip.Symbol(":initform"), slip.Fixnum(sd.form))
		}
		if cd.acc {
			spec = append(spec,
				slip.Symbol(":reader"), slip.Symbol(m.fnName("r", i, s)),
				slip.Symbol(":writer"), slip.Symbol(m.fnName("w", i, s)),
				slip.Symbol(":accessor"), slip.Symbol(m.fnName("x", i, s)))
		}
		specs = append(specs, spec)
	}
	return slip.List{slip.Symbol("defclass"), slip.Symbol(m.names[i]), supers, specs}
}

// ---- evaluation with classification of panics ----

type zzC12Out struct {
	val   slip.Object
	class int // 0 value, 1 lisp condition, 3 Go run-time fault, 4 other panic
	what  string
}

func zzC12Eval(scope *slip.Scope, form slip.Object) (out zzC12Out) {
	defer func() {
		if rec := recover(); rec != nil {
			out.val = nil
			switch tr := rec.(type) {
			case *slip.Panic:
				out.class = 1
				if tr.Condition != nil {
					out.what = string(tr.Condition.Hierarchy()[0])
				}
			case slip.Instance:
				out.class = 1
				out.what = string(tr.Hierarchy()[0])
			case interface{ RuntimeError() }:
				out.class = 3
			default:
				out.class = 4
			}
		}
	}()
	out.val = scope.Eval(form, 0)
	return
}

// ---- oracle, from the written model only ----

func zzC12Has(list []int, x int) bool {
	for _, e := range list {
		if e == x {
			return true
		}
	}
	return false
}

// zzC12Prec: the class, its direct superclasses in written order, then each
// direct superclass's own precedence tail in that order, first occurrence kept.
func zzC12Prec(defs []zzC12ClassDef, c int) []int {
	out := []int{c}
	var direct []int
	for _, d := range defs[c].supers {
		if !zzC12Has(out, d) {
			out = append(out, d)
			direct = append(direct, d)
		}
	}
	for _, d := range direct {
		tail := zzC12Prec(defs, d)
		for k := 1; k < len(tail); k++ {
			if !zzC12Has(out, tail[k]) {
				out = append(out, tail[k])
			}
		}
	}
	return out
}

// zzC12SlotInfo is what the written definitions say about one slot of one class.
type zzC12SlotInfo struct {
	exists  bool
	args    [3]bool // which of :ka :kb :k name this slot
	hasForm bool
	form    int64
}

func zzC12SlotOracle(defs []zzC12ClassDef, prec []int, s int) (si zzC12SlotInfo) {
	for _, c := range prec {
		sd := &defs[c].slot[s]
		if !sd.present {
			continue
		}
		si.exists = true
		switch sd.ia {
		case 1:
			si.args[s] = true
		case 2:
			si.args[2] = true
		}
		if sd.hasForm && !si.hasForm {
			si.hasForm = true
			si.form = sd.form
		}
	}
	return
}

// ---- history: order of the forms and the regions of the known findings ----

func zzC12Fact(n int) int {
	f := 1
	for i := 2; i <= n; i++ {
		f *= i
	}
	return f
}

// zzC12Perm decodes the p-th permutation of 0..n-1 (Lehmer code).
func zzC12Perm(n, p int) []int {
	var pool []int
	for i := 0; i < n; i++ {
		pool = append(pool, i)
	}
	var out []int
	for k := n; 0 < k; k-- {
		f := zzC12Fact(k - 1)
		idx := p / f
		p %= f
		out = append(out, pool[idx])
		pool = append(pool[:idx:idx], pool[idx+1:]...)
	}
	return out
}

// zzC12Closed: is class c defined together with all its transitive
// superclasses, given the set of defined classes and the definitions in force.
func zzC12Closed(defs []zzC12ClassDef, defined []bool, c int) bool {
	if !defined[c] || defs[c].ghost != 0 {
		return false
	}
	for _, d := range defs[c].supers {
		if !zzC12Closed(defs, defined, d) {
			return false
		}
	}
	return true
}

// zzC12Regions computes, for the history (order, redefinition position), the
// classes that lie in the region of known finding 2 (a class redefined while
// complete: subclasses reaching it through another class may keep the old
// definition) and 3 (a class redefined while one of its new superclasses is
// still undefined: its complete subclasses are never merged again).  The up
// closure covers classes that become complete later and copy a stale list.
func (m *zzC12Model) regions(order []int, rpos int) (r2, r3 []bool) {
	r2 = make([]bool, m.n)
	r3 = make([]bool, m.n)
	if m.r < 0 {
		return
	}
	old := make([]zzC12ClassDef, m.n)
	copy(old, m.defs)
	old[m.r] = m.orig
	defined := make([]bool, m.n)
	for k := 0; k <= rpos; k++ {
		defined[order[k]] = true
	}
	newReady := zzC12Closed(m.defs, defined, m.r)
	for c := 0; c < m.n; c++ {
		if c == m.r || !zzC12Closed(old, defined, c) {
			continue
		}
		prec := zzC12Prec(old, c)
		if !zzC12Has(prec, m.r) {
			continue
		}
		if !newReady {
			r3[c] = true
			continue
		}
		for _, d := range old[c].supers {
			if d != m.r && zzC12Has(zzC12Prec(old, d), m.r) {
				r2[c] = true
			}
		}
	}
	// up closure over the final DAG
	for c := m.n - 1; 0 <= c; c-- {
		for _, d := range zzC12Prec(m.defs, c) {
			if d != c && r2[d] {
				r2[c] = true
			}
			if d != c && r3[d] {
				r3[c] = true
			}
		}
	}
	return
}

func zzC12Any(b []bool) bool {
	for _, x := range b {
		if x {
			return true
		}
	}
	return false
}

// ---- the checks on one class ----

func zzC12Fix(o slip.Object) (int64, bool) {
	f, ok := o.(slip.Fixnum)
	return int64(f), ok
}

// checkPrecedence compares (class-precedence 'c) with the oracle.
func (m *zzC12Model) checkPrecedence(scope *slip.Scope, c int, prec []int) {
	out := zzC12Eval(scope, slip.List{slip.Symbol("class-precedence"), zzC12Quote(m.names[c])})
	vrt.Assert(out.class == 0, "class-precedence returns")
	list, ok := out.val.(slip.List)
	vrt.Assert(ok && len(list) == len(prec)+2, "class-precedence length")
	for k, p := range prec {
		sym, _ := list[k].(slip.Symbol)
		vrt.Assert(string(sym) == m.names[p], "class-precedence element")
	}
	so, _ := list[len(prec)].(slip.Symbol)
	tt, _ := list[len(prec)+1].(slip.Symbol)
	vrt.Assert(string(so) == "standard-object" && string(tt) == "t", "class-precedence ends with standard-object t")
}

// checkInstances makes instances of class c for subsets of the initargs and
// checks slots, typep and class-of.  mode 0: everything outside the region of
// finding 1; mode 1: only inside it.
func (m *zzC12Model) checkInstances(scope *slip.Scope, c int, prec []int, mode int) {
	var info [2]zzC12SlotInfo
	var valid [3]bool
	for s := 0; s < 2; s++ {
		info[s] = zzC12SlotOracle(m.defs, prec, s)
		for a := 0; a < 3; a++ {
			if info[s].args[a] {
				valid[a] = true
			}
		}
	}
	tag := strconv.Itoa(c)
	var first slip.Instance
	var cur [2]zzC12SlotInfo
	for sub := 0; sub < 8; sub++ {
		var supplied [3]bool
		nbad := 0
		for a := 0; a < 3; a++ {
			supplied[a] = sub&(1<<a) != 0
			if supplied[a] && !valid[a] {
				nbad++
			}
		}
		if 0 < nbad && (mode != 0 || sub != 1 && sub != 2 && sub != 4) {
			continue // undeclared initargs are tried one at a time
		}
		multi := supplied[2] && info[0].args[2] && info[1].args[2]
		if (mode == 1) != multi {
			continue
		}
		// two supplied initargs naming one slot: slip signals an explicit
		// error where CLHS 7.1.4 takes the leftmost; not part of C12, only
		// the absence of Go faults is required.
		dup := false
		for s := 0; s < 2; s++ {
			cnt := 0
			for a := 0; a < 3; a++ {
				if supplied[a] && info[s].args[a] {
					cnt++
				}
			}
			if 1 < cnt {
				dup = true
			}
		}
		form := slip.List{slip.Symbol("make-instance"), zzC12Quote(m.names[c])}
		var vals [3]int64
		for a := 0; a < 3; a++ {
			if supplied[a] {
				if 0 < nbad || dup {
					// a condition is expected: its report prints the form, so
					// the values are concrete (printing a symbolic integer forks
					// on its digits).
					vals[a] = int64(100 + a)
				} else {
					vals[a] = vrt.Int64("arg-" + tag + "-" + strconv.Itoa(sub) + "-" + strconv.Itoa(a))
				}
				form = append(form, slip.Symbol(zzC12ArgNames[a]), slip.Fixnum(vals[a]))
			}
		}
		out := zzC12Eval(scope, form)
		if 0 < nbad {
			vrt.Assert(out.class == 1, "an undeclared initarg is refused with a condition")
			continue
		}
		if dup {
			vrt.Assert(out.class == 0 || out.class == 1, "duplicate initargs: value or condition")
			continue
		}
		vrt.Assert(out.class == 0, "make-instance returns")
		inst, ok := out.val.(slip.Instance)
		vrt.Assert(ok, "make-instance returns an instance")
		for s := 0; s < 2; s++ {
			m.checkSlot(scope, inst, s, &info[s], supplied, vals)
		}
		if sub == 0 || mode == 1 {
			m.checkType(scope, inst, c, prec)
		}
		if sub == 0 && mode == 0 {
			first = inst
			cur = info
			m.checkSetf(scope, inst, c, &cur)
		}
	}
	if first != nil {
		// the instances made since then share nothing with the first one
		for s := 0; s < 2; s++ {
			m.checkSlot(scope, first, s, &cur[s], [3]bool{}, [3]int64{})
		}
	}
}

// checkSetf: (setf (slot-value i 's) v) changes that slot of that instance only.
func (m *zzC12Model) checkSetf(scope *slip.Scope, inst slip.Instance, c int, cur *[2]zzC12SlotInfo) {
	for s := 0; s < 2; s++ {
		place := slip.List{slip.Symbol("slot-value"), inst, zzC12Quote(zzC12SlotNames[s])}
		if !cur[s].exists {
			out := zzC12Eval(scope, slip.List{slip.Symbol("setf"), place, slip.Fixnum(5)})
			vrt.Assert(out.class == 1, "setf of a slot no class declares signals a condition")
			continue
		}
		v := vrt.Int64("setf-" + strconv.Itoa(c) + "-" + strconv.Itoa(s))
		out := zzC12Eval(scope, slip.List{slip.Symbol("setf"), place, slip.Fixnum(v)})
		vrt.Assert(out.class == 0, "setf slot-value returns")
		cur[s] = zzC12SlotInfo{exists: true, hasForm: true, form: v}
		for t := 0; t < 2; t++ {
			m.checkSlot(scope, inst, t, &cur[t], [3]bool{}, [3]int64{})
		}
	}
}

func (m *zzC12Model) checkSlot(scope *slip.Scope, inst slip.Instance, s int, si *zzC12SlotInfo, supplied [3]bool, vals [3]int64) {
	qs := zzC12Quote(zzC12SlotNames[s])
	bp := zzC12Eval(scope, slip.List{slip.Symbol("slot-boundp"), inst, qs})
	sv := zzC12Eval(scope, slip.List{slip.Symbol("slot-value"), inst, qs})
	if !si.exists {
		vrt.Assert(bp.class == 1 && sv.class == 1, "a slot no class in the precedence list declares is missing")
		return
	}
	bound := si.hasForm
	want := si.form
	for a := 2; 0 <= a; a-- {
		if supplied[a] && si.args[a] {
			bound = true
			want = vals[a]
		}
	}
	vrt.Assert(bp.class == 0, "slot-boundp returns")
	if !bound {
		vrt.Assert(bp.val == nil, "slot without initarg and initform is unbound")
		vrt.Assert(sv.class == 1, "slot-value of an unbound slot signals a condition")
		return
	}
	vrt.Assert(bp.val == slip.True, "slot with initarg or initform is bound")
	vrt.Assert(sv.class == 0, "slot-value returns")
	got, ok := zzC12Fix(sv.val)
	vrt.Assert(ok && got == want, "slot value = supplied initarg, else most specific initform")
}

func (m *zzC12Model) checkType(scope *slip.Scope, inst slip.Instance, c int, prec []int) {
	for k := 0; k < m.n; k++ {
		out := zzC12Eval(scope, slip.List{slip.Symbol("typep"), inst, zzC12Quote(m.names[k])})
		vrt.Assert(out.class == 0, "typep returns")
		if zzC12Has(prec, k) {
			vrt.Assert(out.val == slip.True, "typep is true for every class of the precedence list")
		} else {
			vrt.Assert(out.val == nil, "typep is false for a class outside the precedence list")
		}
	}
	for _, nm := range []string{"standard-object", "t"} {
		out := zzC12Eval(scope, slip.List{slip.Symbol("typep"), inst, zzC12Quote(nm)})
		vrt.Assert(out.class == 0 && out.val == slip.True, "typep standard-object / t")
	}
	out := zzC12Eval(scope, slip.List{slip.Symbol("class-of"), inst})
	cls, ok := out.val.(slip.Class)
	vrt.Assert(out.class == 0 && ok && cls.Name() == m.names[c], "class-of names the class")
	fc := zzC12Eval(scope, slip.List{slip.Symbol("find-class"), zzC12Quote(m.names[c])})
	vrt.Assert(fc.class == 0 && fc.val == out.val, "class-of is the registered class")
}

// checkAccess: readers, writers and accessors declared by class k, applied to
// an instance of class c: applicable iff k is in the precedence list of c,
// and then they touch that slot only.
func (m *zzC12Model) checkAccess(scope *slip.Scope, c int, prec []int) {
	tag := strconv.Itoa(c)
	for k := 0; k < m.n; k++ {
		if !m.defs[k].acc {
			continue
		}
		for s := 0; s < 2; s++ {
			if !m.defs[k].slot[s].present {
				continue
			}
			out := zzC12Eval(scope, slip.List{slip.Symbol("make-instance"), zzC12Quote(m.names[c])})
			vrt.Assert(out.class == 0, "make-instance returns")
			inst, _ := out.val.(slip.Instance)
			applicable := zzC12Has(prec, k)
			if !applicable {
				wr := zzC12Eval(scope, slip.List{slip.Symbol(m.fnName("w", k, s)), inst, slip.Fixnum(5)})
				vrt.Assert(wr.class == 1, "a writer is not applicable outside the precedence list")
				rd := zzC12Eval(scope, slip.List{slip.Symbol(m.fnName("r", k, s)), inst})
				vrt.Assert(rd.class == 1, "a reader is not applicable outside the precedence list")
				ac := zzC12Eval(scope, slip.List{slip.Symbol(m.fnName("x", k, s)), inst})
				vrt.Assert(ac.class == 1, "an accessor is not applicable outside the precedence list")
				continue
			}
			v1 := vrt.Int64("w1-" + tag + "-" + strconv.Itoa(k) + "-" + strconv.Itoa(s))
			v2 := vrt.Int64("w2-" + tag + "-" + strconv.Itoa(k) + "-" + strconv.Itoa(s))
			wr := zzC12Eval(scope, slip.List{slip.Symbol(m.fnName("w", k, s)), inst, slip.Fixnum(v1)})
			vrt.Assert(wr.class == 0, "writer returns")
			var other [2]zzC12SlotInfo
			other[1-s] = zzC12SlotOracle(m.defs, prec, 1-s)
			rd := zzC12Eval(scope, slip.List{slip.Symbol(m.fnName("r", k, s)), inst})
			got, ok := zzC12Fix(rd.val)
			vrt.Assert(rd.class == 0 && ok && got == v1, "reader returns what the writer stored")
			m.checkSlot(scope, inst, 1-s, &other[1-s], [3]bool{}, [3]int64{})
			st := zzC12Eval(scope, slip.List{slip.Symbol("setf"), slip.List{slip.Symbol(m.fnName("x", k, s)), inst}, slip.Fixnum(v2)})
			vrt.Assert(st.class == 0, "setf of the accessor returns")
			ac := zzC12Eval(scope, slip.List{slip.Symbol(m.fnName("x", k, s)), inst})
			got, ok = zzC12Fix(ac.val)
			vrt.Assert(ac.class == 0 && ok && got == v2, "accessor returns what setf stored")
			sv := zzC12Eval(scope, slip.List{slip.Symbol("slot-value"), inst, zzC12Quote(zzC12SlotNames[s])})
			got, ok = zzC12Fix(sv.val)
			vrt.Assert(sv.class == 0 && ok && got == v2, "slot-value sees what the accessor stored")
			m.checkSlot(scope, inst, 1-s, &other[1-s], [3]bool{}, [3]int64{})
			mu := zzC12Eval(scope, slip.List{slip.Symbol("slot-makunbound"), inst, zzC12Quote(zzC12SlotNames[s])})
			vrt.Assert(mu.class == 0, "slot-makunbound returns")
			other[s] = zzC12SlotInfo{exists: true}
			m.checkSlot(scope, inst, s, &other[s], [3]bool{}, [3]int64{})
			m.checkSlot(scope, inst, 1-s, &other[1-s], [3]bool{}, [3]int64{})
		}
	}
}

// checkDispatch: the generic function who has one method per class of the
// mask, returning that class's name: an instance of c gets the method of the
// first class of its precedence list that has one.
func (m *zzC12Model) checkDispatch(scope *slip.Scope, who string, c int, prec []int) {
	out := zzC12Eval(scope, slip.List{slip.Symbol("make-instance"), zzC12Quote(m.names[c])})
	vrt.Assert(out.class == 0, "make-instance returns")
	tv := slip.Symbol(who + "-trace")
	if m.bef != 0 {
		clr := zzC12Eval(scope, slip.List{slip.Symbol("setq"), tv, nil})
		vrt.Assert(clr.class == 0, "setq returns")
	}
	call := zzC12Eval(scope, slip.List{slip.Symbol(who), out.val})
	for _, p := range prec {
		if m.meth&(1<<p) != 0 {
			sym, ok := call.val.(slip.Symbol)
			vrt.Assert(call.class == 0 && ok && string(sym) == m.names[p], "the most specific applicable method runs")
			if m.bef != 0 {
				// every class of the precedence list with a :before method ran it
				// exactly once, most specific first (the trace is consed up)
				var want []int
				for _, q := range prec {
					if m.bef&(1<<q) != 0 {
						want = append(want, q)
					}
				}
				tr := zzC12Eval(scope, tv)
				got, _ := tr.val.(slip.List)
				vrt.Assert(tr.class == 0 && len(got) == len(want), "each :before method of the precedence list runs exactly once")
				for k, q := range want {
					sym, _ := got[len(want)-1-k].(slip.Symbol)
					vrt.Assert(string(sym) == m.names[q], ":before methods run in precedence order")
				}
			}
			return
		}
	}
	for _, q := range prec {
		if m.bef&(1<<q) != 0 {
			// only :before methods apply: slip runs them and returns nil instead of
			// signalling (known finding C10-no-primary-runs-daemons of the
			// dispatcher property C10); here only the absence of Go faults is required
			vrt.Assert(call.class == 0 || call.class == 1, "no applicable primary: value or condition")
			return
		}
	}
	vrt.Assert(call.class == 1, "no applicable method outside the precedence list")
}

// run evaluates the history once (with the class names of the given trial)
// and checks the classes selected by the mode.
func (m *zzC12Model) run(trial int, order []int, rpos int, mode int, r2, r3 []bool) {
	m.setNames(trial)
	scope := slip.NewScope()
	defined := make([]bool, m.n)
	inForce := make([]zzC12ClassDef, m.n)
	copy(inForce, m.defs)
	if 0 <= m.r {
		inForce[m.r] = m.orig
	}
	for k, c := range order {
		out := zzC12Eval(scope, m.form(c, &inForce[c]))
		vrt.Assert(out.class == 0, "defclass returns")
		defined[c] = true
		if 0 <= m.r && k == rpos {
			inForce[m.r] = m.defs[m.r]
			out = zzC12Eval(scope, m.form(m.r, &inForce[m.r]))
			vrt.Assert(out.class == 0, "defclass (redefinition) returns")
		}
		if mode != 0 || k == m.n-1 {
			continue
		}
		// every class that is complete at this point of the history already
		// has the precedence list of the definitions in force
		for x := 0; x < m.n; x++ {
			if !defined[x] || (rpos <= k && 0 <= m.r && (r2[x] || r3[x])) {
				continue
			}
			if !zzC12Closed(inForce, defined, x) {
				// a superclass is still undefined: no instances yet
				mi := zzC12Eval(scope, slip.List{slip.Symbol("make-instance"), zzC12Quote(m.names[x])})
				vrt.Assert(mi.class == 1, "make-instance of a class with an undefined superclass signals a condition")
				continue
			}
			m.checkPrecedence(scope, x, zzC12Prec(inForce, x))
		}
	}
	who := m.pfx + "t" + strconv.Itoa(trial) + "-who"
	for k := 0; k < m.n; k++ {
		if m.meth&(1<<k) != 0 {
			out := zzC12Eval(scope, slip.List{slip.Symbol("defmethod"), slip.Symbol(who),
				slip.List{slip.List{slip.Symbol("x"), slip.Symbol(m.names[k])}}, zzC12Quote(m.names[k])})
			vrt.Assert(out.class == 0, "defmethod returns")
		}
	}
	if m.bef != 0 {
		tv := slip.Symbol(who + "-trace")
		out := zzC12Eval(scope, slip.List{slip.Symbol("defvar"), tv, nil})
		vrt.Assert(out.class == 0, "defvar returns")
		for k := 0; k < m.n; k++ {
			if m.bef&(1<<k) != 0 {
				out = zzC12Eval(scope, slip.List{slip.Symbol("defmethod"), slip.Symbol(who), slip.Symbol(":before"),
					slip.List{slip.List{slip.Symbol("x"), slip.Symbol(m.names[k])}},
					slip.List{slip.Symbol("setq"), tv, slip.List{slip.Symbol("cons"), zzC12Quote(m.names[k]), tv}}})
				vrt.Assert(out.class == 0, "defmethod :before returns")
			}
		}
	}
	if trial == 0 {
		vrt.Reach("defined")
	}
	for c := 0; c < m.n; c++ {
		switch mode {
		case 0, 1:
			if r2[c] || r3[c] {
				continue
			}
		case 2:
			if !r2[c] {
				continue
			}
		case 3:
			if !r3[c] {
				continue
			}
		}
		prec := zzC12Prec(m.defs, c)
		if mode != 1 {
			m.checkPrecedence(scope, c, prec)
		}
		if mode == 0 || mode == 1 {
			m.checkInstances(scope, c, prec, mode)
		} else {
			m.checkInstances(scope, c, prec, 0)
		}
		if mode == 0 {
			m.checkAccess(scope, c, prec)
		}
		if mode != 1 && (m.meth != 0 || m.bef != 0) {
			m.checkDispatch(scope, who, c, prec)
		}
	}
	if trial == 0 && mode == 0 {
		out := zzC12Eval(scope, slip.List{slip.Symbol("class-precedence"), zzC12Quote(m.names[0])})
		vrt.Note("prec0", slip.ObjectString(out.val))
	}
}

// VerifC12Order: n classes, DAG shape, slot profile, optional redefinition
// (redef < 0: none) and accessor flag from the case; the order of the defclass
// forms is a choice (all n! orders per case).
func VerifC12Order(n, shape, prof, redef, opts int) {
	m := zzC12Decode(n, shape, prof, redef, opts)
	order := zzC12Perm(n, vrt.Choice("perm", zzC12Fact(n)))
	rpos := -1
	if 0 <= m.r {
		for k, c := range order {
			if c == m.r {
				rpos = k
			}
		}
		if rpos < n-1-m.rq {
			rpos = n - 1 - m.rq
		}
	}
	r2, r3 := m.regions(order, rpos)
	// which findings have a non-empty region in this history
	multi := false
	for c := 0; c < n; c++ {
		if r2[c] || r3[c] {
			continue
		}
		prec := zzC12Prec(m.defs, c)
		a := zzC12SlotOracle(m.defs, prec, 0)
		b := zzC12SlotOracle(m.defs, prec, 1)
		if a.args[2] && b.args[2] {
			multi = true
		}
	}
	modes := []int{0}
	if multi {
		modes = append(modes, 1)
	}
	if zzC12Any(r2) {
		modes = append(modes, 2)
	}
	if zzC12Any(r3) {
		modes = append(modes, 3)
	}
	mode := modes[vrt.Choice("mode", len(modes))]
	vrt.Carve(zzC12Carve1, mode == 1)
	vrt.Carve(zzC12Carve2, mode == 2)
	vrt.Carve(zzC12Carve3, mode == 3)
	trials := 1
	if mode == 2 && !vrt.Symbolic() {
		// finding 2 depends on Go's map iteration order: natively the same
		// history is repeated with fresh class names.
		trials = 12
	}
	for t := 0; t < trials; t++ {
		m.run(t, order, rpos, mode, r2, r3)
	}
	vrt.Reach("checked")
}

// zzC12NoWord replaces repl.addWord (maintenance of the sorted completion word
// list of the interactive REPL on every Define/RegisterClass) in the engine.
func zzC12NoWord(word string) {}
