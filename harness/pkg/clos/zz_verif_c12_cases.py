#!/usr/bin/env python3
"""Generates /verif/harness/obligations.d/C12.json (case lists of the C12 obligations).

The case tuple is (n, shape, prof, redef, opts), decoded by zzC12Decode in
zz_verif_c12.go:
  shape  mixed radix, digit i (class i, least significant first) selects the i-th
         ordered list of <= 2 distinct direct superclasses among classes i+1..n-1
  prof   base 49 digit per class: slot sa option + 7 * slot sb option, option 0 =
         slot absent, else 1 + initarg(0 none,1 own,2 shared :k) + 3 * has-initform
  redef  -1 none, else r + n*(supers + cnt(r)*(slots + 49*rq)): class r is redefined
         with new supers/slots, evaluated after the original form at position
         max(pos(r), n-1-rq) of the order; ghost (next digit, base 3; encoded as rq + n*ghost):
         the ORIGINAL definition of r also names a superclass that is never defined, written
         last (1) or first (2), so r and every class inheriting it wait until the redefinition
  opts   bit 0: every slot gets :reader/:writer/:accessor; bits 1..n: classes that
         get a method of the generic function who; bits n+1..2n: classes that get a
         :before method of who pushing the class name on a trace
Sampling is pseudo-random with a fixed seed (deterministic lists); all DAG shapes
of n <= 3 (quick) and n <= 4 (thorough) occur.
"""
import json, random, os

def cnt(n, i):
    m = n - 1 - i
    return 1 + m + m * (m - 1)

def nshapes(n):
    p = 1
    for i in range(n):
        p *= cnt(n, i)
    return p

def slotcode(rnd):
    if rnd.random() < 0.25:
        return 0
    ia = rnd.choices([0, 1, 2], [0.25, 0.35, 0.4])[0]
    form = 1 if rnd.random() < 0.6 else 0
    return 1 + ia + 3 * form

def classcode(rnd):
    return slotcode(rnd) + 7 * slotcode(rnd)

def prof(rnd, n):
    p = 0
    for i in reversed(range(n)):
        p = p * 49 + classcode(rnd)
    return p

def redef(rnd, n):
    r = rnd.randrange(n)
    sup = rnd.randrange(cnt(n, r))
    rq = rnd.randrange(n)
    return r + n * (sup + cnt(n, r) * (classcode(rnd) + 49 * rq))

def mask(rnd, n):
    m = rnd.randrange(1 << n) << 1
    if rnd.random() < 0.5:
        m |= rnd.randrange(1 << n) << (1 + n)
    return m

def digit(n, shape, i):
    for k in range(i):
        shape //= cnt(n, k)
    return shape % cnt(n, i)

def ghost_case(rnd, n, shape, r, rq, g):
    """r is first defined with an additional never defined superclass and later redefined
    with the same (defined) superclasses and fresh slot options"""
    rd = r + n * (digit(n, shape, r) + cnt(n, r) * (classcode(rnd) + 49 * (rq + n * g)))
    full = ((1 << n) - 1)
    return [n, shape, prof(rnd, n), rd, (full << 1) | (full << (1 + n))]

def ghost_cases(rnd, thorough):
    out = []
    for rq in (0, 1):
        for g in (1, 2):
            out.append(ghost_case(rnd, 2, 1, 1, rq, g))
    k = 0
    for shape, r in ((6, 2), (7, 2), (8, 2), (6, 1)):
        for rq in (0, 2):
            k += 1
            out.append(ghost_case(rnd, 3, shape, r, rq, 1 + k % 2))
    if thorough:
        for shape in range(nshapes(3)):
            for r in (1, 2):
                for rq in (0, 1, 2):
                    for g in (1, 2):
                        out.append(ghost_case(rnd, 3, shape, r, rq, g))
        for shape in pick(rnd, 4, 40):
            out.append(ghost_case(rnd, 4, shape, 1 + rnd.randrange(3), rnd.randrange(4), 1 + rnd.randrange(2)))
    return out

def order_cases(rnd, plan):
    out = []
    for n, per_shape, shapes in plan:
        ss = range(nshapes(n)) if shapes is None else shapes
        for s in ss:
            for _ in range(per_shape):
                out.append([n, s, prof(rnd, n), -1, mask(rnd, n)])
    return out

def redef_cases(rnd, plan, acc=0):
    out = []
    for n, per_shape, shapes in plan:
        ss = range(nshapes(n)) if shapes is None else shapes
        for s in ss:
            for _ in range(per_shape):
                out.append([n, s, prof(rnd, n), redef(rnd, n), mask(rnd, n) | acc])
    return out

def access_cases(rnd, plan):
    out = []
    for n, count in plan:
        for k in range(count):
            rd = redef(rnd, n) if k % 2 == 1 else -1
            out.append([n, rnd.randrange(nshapes(n)), prof(rnd, n), rd, mask(rnd, n) | 1])
    return out

def pick(rnd, n, k):
    return sorted(rnd.sample(range(nshapes(n)), k))

rnd = random.Random(12012)
order_q = order_cases(rnd, [(1, 2, None), (2, 2, None), (3, 3, None), (4, 1, pick(rnd, 4, 2))])
order_t = order_q + order_cases(rnd, [(2, 10, None), (3, 50, None), (4, 3, None), (5, 1, pick(rnd, 5, 6))])
redef_q = redef_cases(rnd, [(2, 2, None), (3, 3, None), (4, 1, pick(rnd, 4, 1))])
redef_t = redef_q + redef_cases(rnd, [(2, 12, None), (3, 50, None), (4, 2, None)])
access_q = access_cases(rnd, [(2, 2), (3, 4)])
access_t = access_q + access_cases(rnd, [(2, 10), (3, 50), (4, 5)])

# quick must contain the diamond c0 (c1 c2), c1 (c3), c2 (c3) (shape 74) and c0 (c1 c2), c1 (c2 c3),
# c2 (c3) (shape 84): a shared ancestor appears once, its :before method runs once
full4 = (15 << 1) | (15 << 5)
for lst in (order_q, order_t):
    lst.insert(0, [4, 84, prof(random.Random(84), 4), -1, full4])
    lst.insert(0, [4, 74, prof(random.Random(74), 4), -1, full4])
gq = ghost_cases(random.Random(12112), False)
gt = ghost_cases(random.Random(12112), True)
redef_q += gq
redef_t += gt

# a hand-written family with every feature, kept first in the lists:
# c0 (c1 c2): sa own+form ; c1 (c2): sa shared+form, sb shared ; c2: sa form, sb own+form
hand = [3, 8, 5 + 49 * 27 + 49 * 49 * 39, -1, 0b1010]
order_q.insert(0, hand)
order_t.insert(0, hand)
# chain c0 (c1), c1 (c2), c2 redefined at the end (finding 2), and c1 redefined with a
# forward-referenced super right after its definition (finding 3)
redef_q.insert(0, [3, 6, 9604, 14, 0])
redef_q.insert(1, [3, 1, 9604, 616, 0])
redef_t.insert(0, [3, 6, 9604, 14, 0])
redef_t.insert(1, [3, 1, 9604, 616, 0])
# n=4 chain c0 (c1), c1 (c2); c2 redefined with the new super c3 right after its own
# definition / one form before the end: histories inside the regions of findings 2 and 3
redef_q.insert(2, [4, 11, 4127319, 1214, 30])
redef_t.insert(2, [4, 11, 4127319, 1214, 30])
redef_t.insert(3, [4, 11, 4127319, 430, 30])

OVR = {"github.com/ohler55/slip/pkg/repl.addWord": "github.com/ohler55/slip/pkg/clos.zzC12NoWord"}
C1, C2, C3 = "C12-initarg-multi-slot", "C12-redef-indirect-subclass-stale", "C12-redef-forward-super-subclass-stale"
common = ("Written model in the harness: n classes, class i may name <= 2 direct superclasses among classes i+1..n-1 in written order "
          "(forward references arise from the evaluation order), slots sa/sb per class absent or present with initarg none / own (:ka,:kb) / "
          "shared (:k) and optional :initform. Concrete skeleton: n, DAG shape, slot profile, redefinition and options come from the case tuple "
          "(pseudo-random sample, fixed seed 12012, see zz_verif_c12_cases.py); the ORDER of the n defclass forms is a vrt.Choice, so every case "
          "covers all n! orders. Symbolic (unbounded int64): every initform value and every initarg value passed to make-instance. The forms are "
          "evaluated through the real registry (scope.Eval of defclass / make-instance / slot-value / slot-boundp / typep / class-of / find-class / "
          "class-precedence / defmethod / generic calls) with class names unique per case. Oracle (Appendix F C12), computed from the written model "
          "only: precedence = class, direct supers in written order, then each direct super's tail, first occurrence kept, standard-object, t; "
          "slot = supplied initarg, else initform of the first class in precedence having one, else unbound (slot-boundp nil, slot-value signals); "
          "undeclared slot -> condition; undeclared initarg -> condition. Checked for EVERY class of the family: class-precedence (also after every "
          "prefix of the history for each class that is complete at that point; a class with a still undefined superclass must refuse make-instance with a condition), one instance per subset of {:ka,:kb,:k} (8 subsets, undeclared "
          "initargs one at a time) with both slots' boundness and value, (setf slot-value) with a symbolic value changing that slot of that instance only (the first instance is re-read after all the others were made), typep against every class + standard-object + t, class-of/find-class, and "
          "dispatch of a generic function with methods on a sampled subset of the classes (most specific applicable method, or no-applicable-method; "
          ":before methods on a sampled subset push the class name on a trace: each class of the precedence list with one runs it exactly once, most specific first; a call with applicable :before methods but no applicable "
          "primary is C10's known finding C10-no-primary-runs-daemons and only required not to fault). "
          "Expected conditions are provoked with concrete values only (slip prints the form in the report; printing a symbolic integer forks per digit). "
          "Two supplied initargs naming the same slot: slip signals an explicit error where CLHS 7.1.4 takes the leftmost; outside C12, only 'value or "
          "condition, no Go fault' is required there. Engine model: (*StandardObject).ID (address of the object, used only when printing) returns a "
          "constant (x_c12.go). Stub: repl.addWord (keeps the REPL's sorted completion word list up to date on every Define/RegisterClass; "
          "only read by interactive completion, never by class or instance code) is replaced by a no-op in the engine (halves the run time); the native "
          "replay runs the real function. Go map iteration is insertion-ordered in the engine; slip code whose result depends on map order is inside the carved "
          "regions. Known findings are split off by a leading vrt.Choice(mode): mode 0 checks everything outside the regions, the other modes check only "
          "inside one region (dead in the main run, explored by the probe run). ")
spec = [
    {"id": "C12.order", "property": "C12", "pkg": "pkg/clos", "entry": "VerifC12Order",
     "cases": {"quick": order_q, "thorough": order_t}, "reach": ["defined", "checked"],
     "max_depth": 400, "max_steps": 200000000, "solver_timeout_ms": 10000, "overrides": OVR, "carves": [C1],
     "note": common + "This obligation: no redefinition. The quick tier contains the 4-class diamond and a second 4-class shape with shared ancestors (methods and :before methods on all classes). Bounds: quick n<=3 all 1+2+10 shapes x 2-3 profiles, 2 shapes of n=4; thorough adds 50 "
             "profiles per n=3 shape, 3 profiles for each of the 100 n=4 shapes, 6 shapes of n=5 (120 orders each)."},
    {"id": "C12.redef", "property": "C12", "pkg": "pkg/clos", "entry": "VerifC12Order",
     "cases": {"quick": redef_q, "thorough": redef_t}, "reach": ["defined", "checked"],
     "max_depth": 400, "max_steps": 200000000, "solver_timeout_ms": 10000, "overrides": OVR, "carves": [C1, C2, C3],
     "note": common + "This obligation: one class r is redefined (new supers among r+1..n-1, new slot options, new symbolic initforms) at a sampled "
             "position of the history at or after its first definition (possibly before its new superclasses exist); the oracle uses the definitions "
             "in force. Regions carved (per class, computed from the history): finding 2 = r was complete when redefined and the class reaches r "
             "through another class (slip re-merges in Go map order; natively the probe repeats the history with 12 fresh name sets because the defect "
             "is nondeterministic); finding 3 = the new r was not complete when redefined and the class was a complete subclass of r (or inherits such "
             "a class). Everything else, including r itself and its direct subclasses, is checked. Ghost family: r is first defined with an additional superclass name that is never defined (so r and every class naming it, defined before or after it, wait: make-instance must signal) and is then redefined without it; afterwards every class must be complete exactly as in dependency order (quick: 1 and 2 waiting classes, n=2,3, 12 cases x all orders; thorough: all n=3 shapes x r x position x ghost first/last, 40 n=4 shapes). Bounds: quick n<=3 (all shapes x 2-3 samples) + 1 "
             "case n=4; thorough 50 samples per n=3 shape, 2 per n=4 shape."},
    {"id": "C12.access", "property": "C12", "pkg": "pkg/clos", "entry": "VerifC12Order",
     "cases": {"quick": access_q, "thorough": access_t}, "reach": ["defined", "checked"],
     "max_depth": 400, "max_steps": 400000000, "solver_timeout_ms": 10000, "overrides": OVR, "carves": [C1, C2, C3],
     "note": common + "This obligation: every slot specifier also declares :reader, :writer and :accessor (names unique per class and slot); for every "
             "pair (declaring class k, instance class c): applicable iff k is in the precedence list of c (else a condition); writer then reader, (setf "
             "accessor) then accessor and slot-value return the written symbolic value, and the other slot keeps its initial value/boundness (locality); slot-makunbound unbinds that slot only. "
             "slip's writer takes (object value), CLOS (value object): the harness follows slip's documented order. Half of the cases carry a "
             "redefinition (readers of the final definitions only). Bounds: quick 2 cases n=2, 4 cases n=3; thorough +10 n=2, +50 n=3, +5 n=4."},
]
out = os.path.join(os.path.dirname(os.path.abspath(__file__)), "..", "..", "obligations.d", "C12.json")
json.dump(spec, open(out, "w"), indent=0)
print({s["id"]: {t: len(c) for t, c in s["cases"].items()} for s in spec})
