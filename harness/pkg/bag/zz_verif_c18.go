package bag

import (
	"strconv"

	"github.com/ohler55/slip"
	"github.com/ohler55/slip/pkg/flavors"
	vrt "github.com/ohler55/slip/zzvrt"
)

// ---------------------------------------------------------------------------
// C18 (bags): bag content -> native Lisp data (bag-native) -> bag content
// (make-bag / ObjectToBag) is the identity, and the other way round.
// Nothing here goes through ojg: make-bag of a non-string argument and
// bag-native are pure slip code.
// ---------------------------------------------------------------------------

type zzC18BOut struct {
	val   slip.Object
	class int // 0 value, 1 lisp condition, 3 Go run-time fault, 4 other
	fault string
}

func zzC18BRun(f func() slip.Object) (out zzC18BOut) {
	defer func() {
		if rec := recover(); rec != nil {
			switch tr := rec.(type) {
			case *slip.Panic:
				out.class = 1
				out.fault = tr.Message
			case slip.Instance:
				out.class = 1
			case interface{ RuntimeError() }:
				out.class = 3
				out.fault = tr.(error).Error()
			default:
				out.class = 4
			}
			out.val = nil
		}
	}()
	out.val = f()
	return
}

// zzC18BGen builds, from one shape text, a bag tree (Go data as ojg would
// have parsed it) and the corresponding native Lisp datum.
//
//	i int64 (symbolic)  s string (2 symbolic bytes)  e ""  n null  t true  f false  d 2.5
//	[ ... ] array       { ... } object with keys k0,k1,...
type zzC18BGen struct {
	src      string
	pos      int
	n        int
	hasFalse bool
	hasEmpty bool // an empty array or object
	nullInOb bool // null/false as the value of an object member
}

func (g *zzC18BGen) name(p string) string {
	g.n++
	return p + strconv.Itoa(g.n)
}

// value returns the bag tree and the Lisp datum for it.
func (g *zzC18BGen) value() (any, slip.Object) {
	c := g.src[g.pos]
	g.pos++
	switch c {
	case 'i':
		x := vrt.Int64(g.name("bi"))
		return x, slip.Fixnum(x)
	case 's':
		s := vrt.String(g.name("bs"), 2)
		return s, slip.String(s)
	case 'e':
		return "", slip.String("")
	case 'n':
		return nil, nil
	case 't':
		return true, slip.True
	case 'f':
		g.hasFalse = true
		return false, nil
	case 'd':
		return 2.5, slip.DoubleFloat(2.5)
	case '[':
		list := []any{}
		var ll slip.List
		for g.src[g.pos] != ']' {
			v, l := g.value()
			list = append(list, v)
			ll = append(ll, l)
		}
		g.pos++
		if len(list) == 0 {
			g.hasEmpty = true
			return list, nil
		}
		return list, ll
	case '{':
		m := map[string]any{}
		var ll slip.List
		for g.src[g.pos] != '}' {
			k := "k" + strconv.Itoa(len(m))
			v, l := g.value()
			m[k] = v
			if l == nil {
				g.nullInOb = true
				ll = append(ll, slip.List{slip.String(k)}) // ("k" . nil) is the list ("k")
			} else {
				ll = append(ll, slip.List{slip.String(k), slip.Tail{Value: l}})
			}
		}
		g.pos++
		if len(m) == 0 {
			g.hasEmpty = true
			return m, nil
		}
		return m, ll
	}
	panic("zzC18BGen: bad shape " + g.src)
}

func zzC18BDeep(a, b any) bool {
	switch ta := a.(type) {
	case nil:
		return b == nil
	case bool:
		tb, ok := b.(bool)
		return ok && ta == tb
	case int64:
		tb, ok := b.(int64)
		return ok && ta == tb
	case float64:
		tb, ok := b.(float64)
		return ok && ta == tb
	case string:
		tb, ok := b.(string)
		return ok && ta == tb
	case []any:
		tb, ok := b.([]any)
		if !ok || len(ta) != len(tb) {
			return false
		}
		for i := 0; i < len(ta); i++ {
			if !zzC18BDeep(ta[i], tb[i]) {
				return false
			}
		}
		return true
	case map[string]any:
		tb, ok := b.(map[string]any)
		if !ok || len(ta) != len(tb) {
			return false
		}
		for k, va := range ta {
			vb, has := tb[k]
			if !has || !zzC18BDeep(va, vb) {
				return false
			}
		}
		return true
	}
	return false
}

// zzC18BSameLisp: structural comparison of native data; the members of an
// assoc list may come back in any order (Go map iteration).
func zzC18BSameLisp(a, b slip.Object) bool {
	switch ta := a.(type) {
	case nil:
		if lb, ok := b.(slip.List); ok && len(lb) == 0 {
			return true
		}
		return b == nil
	case slip.Fixnum:
		tb, ok := b.(slip.Fixnum)
		return ok && ta == tb
	case slip.String:
		tb, ok := b.(slip.String)
		return ok && string(ta) == string(tb)
	case slip.DoubleFloat:
		tb, ok := b.(slip.DoubleFloat)
		return ok && ta == tb
	case slip.Tail:
		tb, ok := b.(slip.Tail)
		return ok && zzC18BSameLisp(ta.Value, tb.Value)
	case slip.List:
		tb, ok := b.(slip.List)
		if !ok || len(ta) != len(tb) {
			return false
		}
		if zzC18BIsAssoc(ta) {
			for _, pa := range ta {
				found := false
				for _, pb := range tb {
					if zzC18BSamePair(pa, pb) {
						found = true
					}
				}
				if !found {
					return false
				}
			}
			return true
		}
		for i := 0; i < len(ta); i++ {
			if !zzC18BSameLisp(ta[i], tb[i]) {
				return false
			}
		}
		return true
	}
	if b == nil {
		return false
	}
	return a == b
}

func zzC18BIsAssoc(l slip.List) bool {
	if len(l) == 0 {
		return false
	}
	p, ok := l[0].(slip.List)
	if !ok || len(p) != 2 {
		return false
	}
	_, isTail := p[1].(slip.Tail)
	_, isKey := p[0].(slip.String)
	return isTail && isKey
}

func zzC18BSamePair(a, b slip.Object) bool {
	pa, ok := a.(slip.List)
	pb, ok2 := b.(slip.List)
	if !ok || !ok2 || len(pa) != len(pb) {
		return false
	}
	for i := 0; i < len(pa); i++ {
		if !zzC18BSameLisp(pa[i], pb[i]) {
			return false
		}
	}
	return true
}

func zzC18BQuote(x slip.Object) slip.Object {
	return slip.List{slip.Symbol("quote"), x}
}

var zzC18BShapes = []string{
	/* 0 */ "i", "s", "n", "t", "d", "e", "f", "[i]", "[isntd]", "[[i][s]]",
	/* 10 */ "[[ii][ss]]", "{i}", "{is}", "{it}", "{[i]}", "{[is]s}", "{{i}}", "{{is}i}", "[{i}]", "[{is}{d}]",
	/* 20 */ "[]", "{}", "[[]]", "{[]}", "[{}]", "{{}}", "[f]", "{f}", "{n}", "[{n}]",
	/* 30 */ "[i{si}]", "[iiiiii]", "{iiii}", "[n]", "[nn]", "[[n]i]",
}

// VerifC18BagToNative: bag content -> bag-native -> make-bag gives the same
// content (what (make-bag (bag-native b)) holds equals what b holds).
func VerifC18BagToNative(shape int) {
	g := zzC18BGen{src: zzC18BShapes[shape]}
	v, _ := g.value()
	vrt.Carve("C18-bag-native-false-becomes-null", g.hasFalse)
	vrt.Carve("C18-bag-native-empty-container-becomes-null", g.hasEmpty)
	scope := slip.NewScope()
	mk := zzC18BRun(func() slip.Object { return scope.Eval(slip.List{slip.Symbol("make-bag"), nil}, 0) })
	inst, isInst := mk.val.(*flavors.Instance)
	vrt.Assert(mk.class == 0 && isInst, "could not make a bag")
	inst.Any = v
	nat := zzC18BRun(func() slip.Object { return scope.Eval(slip.List{slip.Symbol("bag-native"), inst}, 0) })
	vrt.Assert(nat.class != 3, "Go run-time fault in bag-native")
	vrt.Assert(nat.class == 0, "bag-native signals on plain bag content")
	// (bag-set (make-bag nil) datum): make-bag itself would parse a string datum as SEN text
	back := zzC18BRun(func() slip.Object {
		return scope.Eval(slip.List{slip.Symbol("bag-set"), slip.List{slip.Symbol("make-bag"), nil}, zzC18BQuote(nat.val)}, 0)
	})
	vrt.Reach("compared")
	vrt.Assert(back.class != 3, "Go run-time fault in make-bag of native data")
	vrt.Assert(back.class == 0, "make-bag signals on what bag-native returned")
	inst2, isInst2 := back.val.(*flavors.Instance)
	vrt.Assert(isInst2, "make-bag did not return a bag")
	vrt.Assert(zzC18BDeep(v, inst2.Any), "bag -> native -> bag changed the content")
}

// VerifC18NativeToBag: native Lisp datum (nil, t, fixnum, float, string, list,
// assoc list with string keys) -> make-bag -> bag-native is Equal to the datum.
func VerifC18NativeToBag(shape int) {
	g := zzC18BGen{src: zzC18BShapes[shape]}
	v, x := g.value()
	// false has no native datum of its own (nil), empty containers are nil:
	// those shapes are the same Lisp datum as their null variants; skip the
	// duplicates. A pair with a nil cdr is a one element list, not a pair.
	vrt.Assume(!g.hasFalse && !g.hasEmpty && !g.nullInOb)
	scope := slip.NewScope()
	mk := zzC18BRun(func() slip.Object {
		return scope.Eval(slip.List{slip.Symbol("bag-set"), slip.List{slip.Symbol("make-bag"), nil}, zzC18BQuote(x)}, 0)
	})
	vrt.Assert(mk.class != 3, "Go run-time fault in make-bag")
	inst, isInst := mk.val.(*flavors.Instance)
	vrt.Assert(mk.class == 0 && isInst, "make-bag signals on native data")
	vrt.Assert(zzC18BDeep(v, inst.Any), "make-bag built another content than the datum describes")
	nat := zzC18BRun(func() slip.Object { return scope.Eval(slip.List{slip.Symbol("bag-native"), inst}, 0) })
	vrt.Reach("compared")
	vrt.Assert(nat.class == 0, "bag-native signals")
	vrt.Assert(zzC18BSameLisp(x, nat.val), "native -> bag -> native changed the datum")
	if !zzC18BHasAssoc(x) {
		vrt.Assert(slip.ObjectEqual(x, nat.val), "native -> bag -> native is not Equal to the datum")
	}
}

func zzC18BHasAssoc(x slip.Object) bool {
	l, ok := x.(slip.List)
	if !ok {
		if t, isT := x.(slip.Tail); isT {
			return zzC18BHasAssoc(t.Value)
		}
		return false
	}
	if zzC18BIsAssoc(l) {
		return true
	}
	for _, e := range l {
		if zzC18BHasAssoc(e) {
			return true
		}
	}
	return false
}
