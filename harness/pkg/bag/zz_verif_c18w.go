package bag

import (
	"strconv"

	"github.com/ohler55/slip"
	"github.com/ohler55/slip/pkg/flavors"
	vrt "github.com/ohler55/slip/zzvrt"
)

// ---------------------------------------------------------------------------
// C18 (text): parse -> write -> parse round trips and json-parse of several
// documents with a receiver that keeps the bags.
//
// The documents are reference trees (zzC18PN) with concrete leaves taken from
// the tables below; the input text is produced by a serializer written here
// (JSON or a loose SEN form), never by ojg.  The parsers and writers under
// test (sen, oj, pretty, called by pkg/bag) run in the engine from their SSA.
// The text is concrete: this part is a bounded enumeration executed by the
// engine (and replayed natively for every reported path), not a proof over
// symbolic text.
// ---------------------------------------------------------------------------

var zzC18WInts = []int64{0, -1, 7, 9007199254740993, 9223372036854775799, -9223372036854775807, 42, 1000000}

var zzC18WStrs = []string{"x", "", "a b", "q\"t", "b\\s", "l\nf", "ünï", "true", "12", "a:b", "{", "日本", "nu\tll", "-", "1e5", "\x01", "null", "[", "a,b", "'", "#c", "//", "a\rb", "\u00e9\u0300", "\xf0\x9f\x98\x80", "-1", "+", ".5", "\x7f"}

// zzC18WTree builds the reference tree for a shape of zzC18PGen's language with
// concrete leaves: the k-th i is zzC18WInts[(k+salt)%len], the k-th s is
// zzC18WStrs[(k+salt)%len].
type zzC18WGen struct {
	src      string
	pos      int
	ni       int
	ns       int
	salt     int
	hasBig   bool // an integer of 19 digits from 9223372036854775800 on (either sign)
	hasWhole bool // a float without a fraction
	hasWord  bool // a string leaf that reads true, false or null
	hasSign  bool // a string leaf or key that begins with - or +
}

func (g *zzC18WGen) value() *zzC18PN {
	c := g.src[g.pos]
	g.pos++
	switch c {
	case 'i':
		x := zzC18WInts[(g.ni+g.salt)%len(zzC18WInts)]
		g.ni++
		return &zzC18PN{k: zzC18PInt, i: x}
	case 's':
		s := zzC18WStrs[(g.ns+g.salt)%len(zzC18WStrs)]
		g.ns++
		if s == "true" || s == "false" || s == "null" {
			g.hasWord = true
		}
		if 0 < len(s) && (s[0] == '-' || s[0] == '+') {
			g.hasSign = true
		}
		return &zzC18PN{k: zzC18PStr, s: s}
	case 'e':
		return &zzC18PN{k: zzC18PStr, s: ""}
	case 'n':
		return &zzC18PN{k: zzC18PNull}
	case 't':
		return &zzC18PN{k: zzC18PTrue}
	case 'f':
		return &zzC18PN{k: zzC18PFalse}
	case 'd':
		return &zzC18PN{k: zzC18PFlt, f: 2.5}
	case 'D':
		return &zzC18PN{k: zzC18PFlt, f: -1.25e-7}
	case 'L':
		return &zzC18PN{k: zzC18PInt, i: 9007199254740993}
	case 'M':
		g.hasBig = true
		return &zzC18PN{k: zzC18PInt, i: -9223372036854775808}
	case 'X':
		g.hasBig = true
		return &zzC18PN{k: zzC18PInt, i: 9223372036854775807}
	case 'C':
		g.hasBig = true
		return &zzC18PN{k: zzC18PInt, i: 9223372036854775800}
	case 'B':
		return &zzC18PN{k: zzC18PInt, i: 9223372036854775799}
	case 'F':
		g.hasWhole = true
		return &zzC18PN{k: zzC18PFlt, f: 3}
	case '[':
		node := &zzC18PN{k: zzC18PArr}
		for g.src[g.pos] != ']' {
			node.el = append(node.el, g.value())
		}
		g.pos++
		return node
	case '{':
		node := &zzC18PN{k: zzC18PObj}
		for g.src[g.pos] != '}' {
			k := string(g.src[g.pos])
			g.pos++
			if k == "Q" { // a key that needs quoting in SEN
				k = "a b"
			}
			if k == "N" {
				k = "null"
			}
			if k == "S" {
				k = "+k"
				g.hasSign = true
			}
			node.ks = append(node.ks, k)
			node.el = append(node.el, g.value())
		}
		g.pos++
		return node
	}
	panic("zzC18WGen: bad shape " + g.src)
}

var zzC18WDocs = []string{
	/* 0 */ "{aibs}",
	/* 1 */ "{aib[iis]}",
	/* 2 */ "{a{aibn}b[{ai}{as}]}",
	/* 3 */ "[iii]",
	/* 4 */ "[{ai}{aibi}i]",
	/* 5 */ "[[ii][s]]",
	/* 6 */ "{}",
	/* 7 */ "[]",
	/* 8 */ "n",
	/* 9 */ "i",
	/* 10 */ "{a[]b{}cn}",
	/* 11 */ "{aLbtcfdd}",
	/* 12 */ "[n[]{}B]",
	/* 13 */ "{a{a{ai}}b[[is]]}",
	/* 14 */ "s",
	/* 15 */ "[ssss]",
	/* 16 */ "{QsbD}",
	/* 17 */ "[[[[i]]]{a{b{c{ds}}}}]",
	/* 18 */ "t",
	/* 19 */ "d",
	/* 20 */ "[BLi]",
	/* 21 */ "[XM]",
	/* 22 */ "{aC}",
	/* 23 */ "[dF]",
	/* 24 */ "{NiQ{Nn}}",
	/* 25 */ "{Sia[s]}",
}

// ---- the harness's own writer ----

const zzC18WHex = "0123456789abcdef"

func zzC18WQuote(b []byte, s string) []byte {
	b = append(b, '"')
	for j := 0; j < len(s); j++ {
		c := s[j]
		switch {
		case c == '"':
			b = append(b, '\\', '"')
		case c == '\\':
			b = append(b, '\\', '\\')
		case c == '\n':
			b = append(b, '\\', 'n')
		case c == '\t':
			b = append(b, '\\', 't')
		case c < 0x20:
			b = append(b, '\\', 'u', '0', '0', zzC18WHex[c>>4], zzC18WHex[c&15])
		default:
			b = append(b, c)
		}
	}
	return append(b, '"')
}

func zzC18WSimpleKey(s string) bool {
	if len(s) == 0 {
		return false
	}
	for j := 0; j < len(s); j++ {
		c := s[j]
		if !('a' <= c && c <= 'z') {
			return false
		}
	}
	return s != "true" && s != "false" && s != "null"
}

// zzC18WText: style 0 JSON, 1 loose SEN (no commas, simple keys unquoted).
func zzC18WText(b []byte, n *zzC18PN, style int) []byte {
	switch n.k {
	case zzC18PNull:
		return append(b, "null"...)
	case zzC18PTrue:
		return append(b, "true"...)
	case zzC18PFalse:
		return append(b, "false"...)
	case zzC18PInt:
		return strconv.AppendInt(b, n.i, 10)
	case zzC18PFlt:
		return strconv.AppendFloat(b, n.f, 'g', -1, 64)
	case zzC18PStr:
		return zzC18WQuote(b, n.s)
	case zzC18PArr:
		b = append(b, '[')
		for j := 0; j < len(n.el); j++ {
			if 0 < j {
				if style == 0 {
					b = append(b, ',')
				} else {
					b = append(b, ' ')
				}
			}
			b = zzC18WText(b, n.el[j], style)
		}
		return append(b, ']')
	case zzC18PObj:
		b = append(b, '{')
		for j := 0; j < len(n.el); j++ {
			if 0 < j {
				if style == 0 {
					b = append(b, ',')
				} else {
					b = append(b, ' ')
				}
			}
			if style == 1 && zzC18WSimpleKey(n.ks[j]) {
				b = append(b, n.ks[j]...)
			} else {
				b = zzC18WQuote(b, n.ks[j])
			}
			b = append(b, ':')
			b = zzC18WText(b, n.el[j], style)
		}
		return append(b, '}')
	}
	return b
}

// ---- driving ----

func zzC18WEval(scope *slip.Scope, form slip.Object) zzC18BOut {
	return zzC18PRun(func() slip.Object { return scope.Eval(form, 0) })
}

// zzC18WParse makes a bag from text.  how: 0 (make-bag text), 1 (bag-parse
// (make-bag nil) text), 2 (make-instance 'bag-flavor :parse text), 3
// (json-parse fn text t) strict JSON, 4 (json-parse fn text) SEN.
func zzC18WParse(scope *slip.Scope, how int, text string) (*flavors.Instance, zzC18BOut) {
	var r zzC18BOut
	switch how {
	case 0:
		r = zzC18WEval(scope, slip.List{slip.Symbol("make-bag"), slip.String(text)})
	case 1:
		r = zzC18WEval(scope, slip.List{slip.Symbol("bag-parse"), slip.List{slip.Symbol("make-bag"), nil}, slip.String(text)})
	case 2:
		r = zzC18WEval(scope, slip.List{slip.Symbol("make-instance"), zzC18BQuote(slip.Symbol("bag-flavor")),
			slip.Symbol(":parse"), slip.String(text)})
	default:
		scope.Let(slip.Symbol("zzc18acc"), nil)
		form := slip.List{slip.Symbol("json-parse"), zzC18PWalkFn, slip.String(text)}
		if how == 3 {
			form = append(form, slip.True)
		}
		r = zzC18WEval(scope, form)
		if r.class == 0 {
			acc, _ := scope.Get(slip.Symbol("zzc18acc")).(slip.List)
			if len(acc) == 1 {
				r.val = acc[0]
			} else {
				r.val = nil
			}
		}
	}
	inst, _ := r.val.(*flavors.Instance)
	return inst, r
}

var zzC18WDepths = []int{0, 1, 2, 3, 4, 9}

// VerifC18ParseWrite: text -> bag -> text -> bag.
//
//	doc     index into zzC18WDocs, salt rotates the leaf tables
//	style   0 JSON input, 1 loose SEN input
//	how     how the text is parsed (zzC18WParse)
//	opts    write options: bit 0 :pretty t, bit 1 :json t, bit 2 :right-margin 20,
//	        bits 3.. index into zzC18WDepths (:depth), 6 = no :depth
//	via     0 (bag-write bag nil ...), 1 (send bag :write nil ...)
func VerifC18ParseWrite(doc, salt, style, how, opts, via int) {
	g := zzC18WGen{src: zzC18WDocs[doc], salt: salt}
	ref := g.value()
	if how == 3 {
		style = 0 // the strict parser gets JSON
	}
	text0 := string(zzC18WText(nil, ref, style))
	// known: integers of 19 digits from 9223372036854775800 on become json.Number
	vrt.Carve("C18-int-near-int64-limit-becomes-json-number", g.hasBig)
	// known: a float without a fraction is written without one and read back as an integer
	vrt.Carve("C18-whole-float-written-as-integer", g.hasWhole)
	// known: the SEN writers write the strings true, false and null without quotes
	vrt.Carve("C18-sen-write-keyword-strings-unquoted", g.hasWord && opts&2 == 0)
	// known: the SEN writers write strings and keys that begin with - or + without quotes
	vrt.Carve("C18-sen-write-sign-strings-unquoted", g.hasSign && opts&2 == 0)
	scope := slip.NewScope()
	bag1, r1 := zzC18WParse(scope, how, text0)
	vrt.Assert(r1.class != 3, "Go run-time fault while parsing")
	vrt.Assert(r1.class == 0 && bag1 != nil, "parsing a well formed document signals")
	vrt.Assert(zzC18PSameAny(ref, bag1.Any), "the parsed bag is not the document")

	var wargs slip.List
	if opts&1 != 0 {
		wargs = append(wargs, slip.Symbol(":pretty"), slip.True)
	} else {
		wargs = append(wargs, slip.Symbol(":pretty"), nil)
	}
	if opts&2 != 0 {
		wargs = append(wargs, slip.Symbol(":json"), slip.True)
	}
	if opts&4 != 0 {
		wargs = append(wargs, slip.Symbol(":right-margin"), slip.Fixnum(20))
	}
	if d := opts >> 3; d < len(zzC18WDepths) {
		wargs = append(wargs, slip.Symbol(":depth"), slip.Fixnum(zzC18WDepths[d]))
	}
	write := func(inst *flavors.Instance) zzC18BOut {
		var form slip.List
		if via == 0 {
			form = slip.List{slip.Symbol("bag-write"), inst, nil}
		} else {
			form = slip.List{slip.Symbol("send"), inst, slip.Symbol(":write"), nil}
		}
		form = append(form, wargs...)
		return zzC18WEval(scope, form)
	}
	w1 := write(bag1)
	vrt.Assert(w1.class != 3, "Go run-time fault in bag-write")
	vrt.Assert(w1.class == 0, "bag-write signals")
	text1, isStr := w1.val.(slip.String)
	vrt.Assert(isStr, "bag-write nil does not return a string")
	vrt.Note("text1", string(text1))
	vrt.Assert(zzC18PSameAny(ref, bag1.Any), "bag-write changed the bag")

	// what was written parses (as SEN; JSON output also as strict JSON) to an equal bag
	how2 := 0
	if opts&2 != 0 {
		how2 = 3
	}
	bag2, r2 := zzC18WParse(scope, how2, string(text1))
	vrt.Reach("compared")
	vrt.Assert(r2.class != 3, "Go run-time fault while parsing what bag-write wrote")
	vrt.Assert(r2.class == 0 && bag2 != nil, "what bag-write wrote does not parse")
	vrt.Assert(zzC18PSameAny(ref, bag2.Any), "what bag-write wrote parses to a different bag")
	w2 := write(bag2)
	text2, _ := w2.val.(slip.String)
	vrt.Assert(w2.class == 0 && string(text2) == string(text1), "writing the re-parsed bag gives another text")
}

// zzC18WCombos: the documents of one json-parse input, as indexes into zzC18WDocs.
var zzC18WCombos = [][]int{
	/* 0 */ {0, 6},
	/* 1 */ {0, 0, 0},
	/* 2 */ {4, 1},
	/* 3 */ {2, 13, 10},
	/* 4 */ {3, 5, 7},
	/* 5 */ {6, 6},
	/* 6 */ {10, 11, 12},
	/* 7 */ {17, 16, 1},
	/* 8 */ {9, 0, 8, 2},
	/* 9 */ {12, 4, 4},
	/* 10 */ {1},
	/* 11 */ {16, 0},
}

var zzC18WSeps = []string{" ", "\n", "", " \n\t "}

// VerifC18JSONParseKeep: (json-parse fn text [strict]) with several documents
// in the text and a function receiver that keeps every bag it is given.
// After the call each kept bag must still hold its own document (and write
// as it).
//
//	combo   index into zzC18WCombos; salt rotates the leaf tables per document
//	strict  0 SEN parser, loose SEN text; 1 SEN parser, JSON text; 2 strict JSON
//	sep     index into zzC18WSeps (scalars are always separated by at least a space)
//	input   0 string, 1 octets
func VerifC18JSONParseKeep(combo, salt, strict, sep, input int) {
	docs := zzC18WCombos[combo]
	refs := make([]*zzC18PN, 0, len(docs))
	var text []byte
	for j := 0; j < len(docs); j++ {
		g := zzC18WGen{src: zzC18WDocs[docs[j]], salt: salt + 3*j}
		ref := g.value()
		if 0 < j {
			s := zzC18WSeps[sep]
			prev := refs[j-1]
			if len(s) == 0 && (prev.k != zzC18PArr && prev.k != zzC18PObj || ref.k != zzC18PArr && ref.k != zzC18PObj) {
				s = " "
			}
			text = append(text, s...)
		}
		style := 1
		if 0 < strict {
			style = 0
		}
		text = zzC18WText(text, ref, style)
		refs = append(refs, ref)
		vrt.Assume(!g.hasBig && !g.hasWhole && !g.hasWord && !g.hasSign)
	}
	scope := slip.NewScope()
	scope.Let(slip.Symbol("zzc18acc"), nil)
	var in slip.Object = slip.String(text)
	if input == 1 {
		in = slip.Octets(text)
	}
	form := slip.List{slip.Symbol("json-parse"), zzC18PWalkFn, in}
	if strict == 2 {
		form = append(form, slip.True)
	}
	r := zzC18WEval(scope, form)
	vrt.Assert(r.class != 3, "Go run-time fault in json-parse")
	vrt.Assert(r.class == 0, "json-parse signals on well formed documents")
	acc, _ := scope.Get(slip.Symbol("zzc18acc")).(slip.List)
	vrt.Reach("compared")
	vrt.Assert(len(acc) == len(refs), "the receiver was not called once per document")
	for j := 0; j < len(refs); j++ {
		inst, isInst := acc[len(acc)-1-j].(*flavors.Instance)
		vrt.Assert(isInst, "the receiver was not given a bag")
		vrt.Assert(zzC18PSameAny(refs[j], inst.Any), "a bag kept by the receiver no longer holds its own document")
		// and through the API: writing it and parsing that gives the document
		w := zzC18WEval(scope, slip.List{slip.Symbol("bag-write"), inst})
		wt, _ := w.val.(slip.String)
		vrt.Assert(w.class == 0, "bag-write of a kept bag signals")
		back, rb := zzC18WParse(scope, 0, string(wt))
		vrt.Assert(rb.class == 0 && back != nil && zzC18PSameAny(refs[j], back.Any), "a kept bag does not write as its own document")
	}
}

// zzC18WBad: malformed texts.  plus: the text has a + (SEN string
// concatenation) pending when the parser gives up.
var zzC18WBad = []struct {
	text string
	plus bool
}{
	/* 0 */ {"{a:", false},
	/* 1 */ {"[1 2", false},
	/* 2 */ {"}", false},
	/* 3 */ {"[\"abc", false},
	/* 4 */ {"{a:1}}", false},
	/* 5 */ {"[1 2}", false},
	/* 6 */ {"[-]", false},
	/* 7 */ {"{a:[1 2}", false},
	/* 8 */ {"{\"a\" 1}", false},
	/* 9 */ {"{a:1 b}", false},
	/* 10 */ {"[+]", true},
	/* 11 */ {"[1 2 3 +]", true},
	/* 12 */ {"{a:\"x\" +}", true},
	/* 13 */ {"[\"a\" + 1]", true},
	/* 14 */ {"\"a\" +", false},
	/* 15 */ {"", false},
}

// VerifC18ParseAfterError: a malformed text is refused with a condition (no
// Go run-time fault), and well formed documents parsed afterwards - with the
// same functions, which take their ojg parser from a pool - still give their
// own content.
//
//	bad    index into zzC18WBad
//	how    how the malformed text is parsed (zzC18WParse 0..4)
//	doc    first well formed document (then doc+5, then the string document 14); salt as in VerifC18ParseWrite
func VerifC18ParseAfterError(bad, how, doc, salt int) {
	scope := slip.NewScope()
	// known: a parse that fails with a + pending leaves the pooled parser in that state
	// (not the strict JSON parser, which knows no +; with several documents per
	// text - json-parse - a + after a complete top level value counts too)
	vrt.Carve("C18-parse-error-with-plus-poisons-parser", how != 3 && (zzC18WBad[bad].plus || (bad == 14 && how == 4)))
	_, r0 := zzC18WParse(scope, how, zzC18WBad[bad].text)
	vrt.Assert(r0.class != 3, "Go run-time fault while parsing a malformed text")
	if bad != 15 {
		vrt.Assert(r0.class == 1, "a malformed text is not refused with a condition")
	}
	docs := []int{doc, (doc + 5) % len(zzC18WDocs), 14}
	for j := 0; j < len(docs); j++ {
		g := zzC18WGen{src: zzC18WDocs[docs[j]], salt: salt + j}
		ref := g.value()
		vrt.Assume(!g.hasBig)
		style := (how + j) % 2
		how2 := (how + j) % 5
		if how2 == 3 {
			style = 0
		}
		inst, r := zzC18WParse(scope, how2, string(zzC18WText(nil, ref, style)))
		vrt.Reach("compared")
		vrt.Assert(r.class != 3, "Go run-time fault while parsing a well formed document after a malformed one")
		vrt.Assert(r.class == 0 && inst != nil, "a well formed document is refused after a malformed one was parsed")
		vrt.Assert(zzC18PSameAny(ref, inst.Any), "a document parsed after a malformed one is not the document")
	}
}
