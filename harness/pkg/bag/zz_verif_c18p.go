package bag

import (
	"strconv"
	"strings"

	"github.com/ohler55/ojg/jp"
	"github.com/ohler55/slip"
	"github.com/ohler55/slip/pkg/flavors"
	vrt "github.com/ohler55/slip/zzvrt"
)

// ---------------------------------------------------------------------------
// C18 (bag path operations): bag-set / bag-remove / bag-get / bag-has /
// bag-get-all / bag-walk and the flavor methods :set :remove :get :has
// :get-all :walk against an independent reference JSON-path model.
//
// The reference model below never calls ojg: it has its own tree type, its own
// path representation (a table entry per path text, written by hand) and its
// own locate / set / remove.  The code under test is the real pkg/bag code and
// the real github.com/ohler55/ojg/jp code, both executed by the engine from
// their SSA (see engine/x_c18.go), with symbolic document leaves.
// ---------------------------------------------------------------------------

const (
	zzC18PNull = iota
	zzC18PTrue
	zzC18PFalse
	zzC18PInt
	zzC18PStr
	zzC18PFlt
	zzC18PArr
	zzC18PObj
)

// zzC18PN is a node of the reference tree.
type zzC18PN struct {
	k  int
	i  int64
	s  string
	f  float64
	el []*zzC18PN // array elements or object member values
	ks []string   // object keys, parallel to el
	// grp != 0: this array/object was put into the document by the grp-th set
	// operation of the history (every copy that one set placed has the same grp)
	grp int
}

func (n *zzC18PN) zzChild(key string) (int, bool) {
	for j := 0; j < len(n.ks); j++ {
		if n.ks[j] == key {
			return j, true
		}
	}
	return -1, false
}

func (n *zzC18PN) zzCopy() *zzC18PN {
	c := &zzC18PN{k: n.k, i: n.i, s: n.s, f: n.f, grp: n.grp}
	for j := 0; j < len(n.el); j++ {
		c.el = append(c.el, n.el[j].zzCopy())
	}
	for j := 0; j < len(n.ks); j++ {
		c.ks = append(c.ks, n.ks[j])
	}
	return c
}

// zzC18PGen builds, from one shape text, the bag content (Go data as ojg's
// parser would deliver it) and the reference tree with the same (symbolic)
// leaves.
//
//	i symbolic int64   s symbolic 2 byte string   e ""   n null   t true   f false
//	d 2.5   L 9007199254740993   M -9223372036854775808
//	[ ... ] array      { kV kV ... } object, k a one letter key followed by its value
type zzC18PGen struct {
	src string
	pos int
	n   int
}

func (g *zzC18PGen) name(p string) string {
	g.n++
	return p + strconv.Itoa(g.n)
}

func (g *zzC18PGen) value() (any, *zzC18PN) {
	c := g.src[g.pos]
	g.pos++
	switch c {
	case 'i':
		x := vrt.Int64(g.name("pi"))
		return x, &zzC18PN{k: zzC18PInt, i: x}
	case 's':
		s := vrt.String(g.name("ps"), 2)
		return s, &zzC18PN{k: zzC18PStr, s: s}
	case 'e':
		return "", &zzC18PN{k: zzC18PStr, s: ""}
	case 'n':
		return nil, &zzC18PN{k: zzC18PNull}
	case 't':
		return true, &zzC18PN{k: zzC18PTrue}
	case 'f':
		return false, &zzC18PN{k: zzC18PFalse}
	case 'd':
		return 2.5, &zzC18PN{k: zzC18PFlt, f: 2.5}
	case 'L':
		return int64(9007199254740993), &zzC18PN{k: zzC18PInt, i: 9007199254740993}
	case 'M':
		return int64(-9223372036854775808), &zzC18PN{k: zzC18PInt, i: -9223372036854775808}
	case '[':
		list := []any{}
		node := &zzC18PN{k: zzC18PArr}
		for g.src[g.pos] != ']' {
			v, r := g.value()
			list = append(list, v)
			node.el = append(node.el, r)
		}
		g.pos++
		return list, node
	case '{':
		m := map[string]any{}
		node := &zzC18PN{k: zzC18PObj}
		for g.src[g.pos] != '}' {
			k := string(g.src[g.pos])
			g.pos++
			v, r := g.value()
			m[k] = v
			node.ks = append(node.ks, k)
			node.el = append(node.el, r)
		}
		g.pos++
		return m, node
	}
	panic("zzC18PGen: bad shape " + g.src)
}

var zzC18PDocs = []string{
	/* 0 */ "{aibs}",
	/* 1 */ "{aib[iis]}",
	/* 2 */ "{a{aibn}b[{ai}{as}]}",
	/* 3 */ "[iii]",
	/* 4 */ "[{ai}{aibi}i]",
	/* 5 */ "[[ii][s]]",
	/* 6 */ "{}",
	/* 7 */ "[]",
	/* 8 */ "n",
	/* 9 */ "i",
	/* 10 */ "{a[]b{}cn}",
	/* 11 */ "{aLbtcfdd}",
	/* 12 */ "[n[]{}M]",
	/* 13 */ "{a{a{ai}}b[[is]]}",
	/* 14 */ "[[i][][i]]",
}

// ---- reference paths ----

const (
	zzC18PFKey = iota
	zzC18PFIdx
	zzC18PFWild
	zzC18PFSlice
	zzC18PFDescent
	zzC18PFRoot
)

type zzC18PF struct {
	k       int
	key     string
	idx     int
	lo, hi  int // slice bounds; hasLo/hasHi tell whether they were written
	hasLo   bool
	hasHi   bool
	step    int
	hasStep bool
}

type zzC18PPath struct {
	text  string
	frags []zzC18PF
}

func zzC18PK(key string) zzC18PF { return zzC18PF{k: zzC18PFKey, key: key} }
func zzC18PI(i int) zzC18PF      { return zzC18PF{k: zzC18PFIdx, idx: i} }

var (
	zzC18PW = zzC18PF{k: zzC18PFWild}
	zzC18PD = zzC18PF{k: zzC18PFDescent}
	zzC18PR = zzC18PF{k: zzC18PFRoot}
)

func zzC18PS(lo, hi int, hasLo, hasHi bool) zzC18PF {
	return zzC18PF{k: zzC18PFSlice, lo: lo, hi: hi, hasLo: hasLo, hasHi: hasHi}
}

// The path grid: text given to the slip functions, fragments given to the
// reference model (the translation is done by hand, the parser under test is
// jp's).
var zzC18PPaths = []zzC18PPath{
	/* 0 */ {"a", []zzC18PF{zzC18PK("a")}},
	/* 1 */ {"b", []zzC18PF{zzC18PK("b")}},
	/* 2 */ {"a.a", []zzC18PF{zzC18PK("a"), zzC18PK("a")}},
	/* 3 */ {"b[0]", []zzC18PF{zzC18PK("b"), zzC18PI(0)}},
	/* 4 */ {"b[-1]", []zzC18PF{zzC18PK("b"), zzC18PI(-1)}},
	/* 5 */ {"$.b[1].a", []zzC18PF{zzC18PR, zzC18PK("b"), zzC18PI(1), zzC18PK("a")}},
	/* 6 */ {"[0]", []zzC18PF{zzC18PI(0)}},
	/* 7 */ {"[1]", []zzC18PF{zzC18PI(1)}},
	/* 8 */ {"[-1]", []zzC18PF{zzC18PI(-1)}},
	/* 9 */ {"[0].a", []zzC18PF{zzC18PI(0), zzC18PK("a")}},
	/* 10 */ {"*", []zzC18PF{zzC18PW}},
	/* 11 */ {"b[*]", []zzC18PF{zzC18PK("b"), zzC18PW}},
	/* 12 */ {"[*].a", []zzC18PF{zzC18PW, zzC18PK("a")}},
	/* 13 */ {"$.*.a", []zzC18PF{zzC18PR, zzC18PW, zzC18PK("a")}},
	/* 14 */ {"..a", []zzC18PF{zzC18PD, zzC18PK("a")}},
	/* 15 */ {"[0:2]", []zzC18PF{zzC18PS(0, 2, true, true)}},
	/* 16 */ {"[1:]", []zzC18PF{zzC18PS(1, 0, true, false)}},
	/* 17 */ {"b[:-1]", []zzC18PF{zzC18PK("b"), zzC18PS(0, -1, false, true)}},
	/* 18 */ {"x.y", []zzC18PF{zzC18PK("x"), zzC18PK("y")}},
	/* 19 */ {"x[1]", []zzC18PF{zzC18PK("x"), zzC18PI(1)}},
	/* 20 */ {"a.b.c", []zzC18PF{zzC18PK("a"), zzC18PK("b"), zzC18PK("c")}},
	/* 21 */ {"$", []zzC18PF{zzC18PR}},
	/* 22 */ {"b[5]", []zzC18PF{zzC18PK("b"), zzC18PI(5)}},
	/* 23 */ {"[-2]", []zzC18PF{zzC18PI(-2)}},
	/* 24 */ {"$..[0]", []zzC18PF{zzC18PR, zzC18PD, zzC18PI(0)}},
	/* 25 */ {"['a']", []zzC18PF{zzC18PK("a")}},
	/* 26 */ {"[0][1]", []zzC18PF{zzC18PI(0), zzC18PI(1)}},
	/* 27 */ {"a..a", []zzC18PF{zzC18PK("a"), zzC18PD, zzC18PK("a")}},
	/* 28 */ {"[*][0]", []zzC18PF{zzC18PW, zzC18PI(0)}},
}

// ---- reference locate ----

type zzC18PStep struct {
	isKey bool
	key   string
	idx   int
}

type zzC18PLoc struct {
	steps []zzC18PStep
	node  *zzC18PN
}

type zzC18PFound struct {
	locs      []zzC18PLoc
	unordered bool // the order of the matches is not determined by the path (object members, descent)
}

func zzC18PAppendStep(steps []zzC18PStep, st zzC18PStep) []zzC18PStep {
	out := make([]zzC18PStep, 0, len(steps)+1)
	for j := 0; j < len(steps); j++ {
		out = append(out, steps[j])
	}
	return append(out, st)
}

func (fd *zzC18PFound) eval(node *zzC18PN, steps []zzC18PStep, frags []zzC18PF, fi int) {
	if fi == len(frags) {
		fd.locs = append(fd.locs, zzC18PLoc{steps: steps, node: node})
		return
	}
	f := frags[fi]
	switch f.k {
	case zzC18PFRoot:
		fd.eval(node, steps, frags, fi+1)
	case zzC18PFKey:
		if node.k == zzC18PObj {
			if j, has := node.zzChild(f.key); has {
				fd.eval(node.el[j], zzC18PAppendStep(steps, zzC18PStep{isKey: true, key: f.key}), frags, fi+1)
			}
		}
	case zzC18PFIdx:
		if node.k == zzC18PArr {
			j := f.idx
			if j < 0 {
				j = len(node.el) + j
			}
			if 0 <= j && j < len(node.el) {
				fd.eval(node.el[j], zzC18PAppendStep(steps, zzC18PStep{idx: j}), frags, fi+1)
			}
		}
	case zzC18PFWild:
		switch node.k {
		case zzC18PArr:
			for j := 0; j < len(node.el); j++ {
				fd.eval(node.el[j], zzC18PAppendStep(steps, zzC18PStep{idx: j}), frags, fi+1)
			}
		case zzC18PObj:
			if 1 < len(node.el) {
				fd.unordered = true
			}
			for j := 0; j < len(node.el); j++ {
				fd.eval(node.el[j], zzC18PAppendStep(steps, zzC18PStep{isKey: true, key: node.ks[j]}), frags, fi+1)
			}
		}
	case zzC18PFSlice:
		// RFC 9535 2.3.4 with step 1: start inclusive, end exclusive, negative
		// values count from the end, both clamped to the array.
		if node.k == zzC18PArr {
			n := len(node.el)
			lo, hi := 0, n
			if f.hasLo {
				lo = f.lo
				if lo < 0 {
					lo = n + lo
				}
				if lo < 0 {
					lo = 0
				}
				if n < lo {
					lo = n
				}
			}
			if f.hasHi {
				hi = f.hi
				if hi < 0 {
					hi = n + hi
				}
				if hi < 0 {
					hi = 0
				}
				if n < hi {
					hi = n
				}
			}
			for j := lo; j < hi; j++ {
				fd.eval(node.el[j], zzC18PAppendStep(steps, zzC18PStep{idx: j}), frags, fi+1)
			}
		}
	case zzC18PFDescent:
		// the rest of the path applied to the node itself and to every descendant
		fd.unordered = true
		fd.descend(node, steps, frags, fi+1)
	}
}

func (fd *zzC18PFound) descend(node *zzC18PN, steps []zzC18PStep, frags []zzC18PF, fi int) {
	fd.eval(node, steps, frags, fi)
	switch node.k {
	case zzC18PArr:
		for j := 0; j < len(node.el); j++ {
			fd.descend(node.el[j], zzC18PAppendStep(steps, zzC18PStep{idx: j}), frags, fi)
		}
	case zzC18PObj:
		for j := 0; j < len(node.el); j++ {
			fd.descend(node.el[j], zzC18PAppendStep(steps, zzC18PStep{isKey: true, key: node.ks[j]}), frags, fi)
		}
	}
}

func zzC18PLocate(root *zzC18PN, frags []zzC18PF) *zzC18PFound {
	fd := &zzC18PFound{}
	fd.eval(root, nil, frags, 0)
	return fd
}

// zzC18PDefinite: only keys and indices (after an optional root).
func zzC18PDefinite(frags []zzC18PF) bool {
	for j := 0; j < len(frags); j++ {
		switch frags[j].k {
		case zzC18PFKey, zzC18PFIdx:
		case zzC18PFRoot:
			if j != 0 {
				return false
			}
		default:
			return false
		}
	}
	return true
}

func zzC18PSelectors(frags []zzC18PF) []zzC18PF {
	if 0 < len(frags) && frags[0].k == zzC18PFRoot {
		return frags[1:]
	}
	return frags
}

// ---- reference set ----

const (
	zzC18POk      = 0 // performed
	zzC18PRefuse  = 1 // the operation can not be performed on this data with this path: a condition is the only acceptable outcome
	zzC18PEither  = 2 // jp documents a restriction (path form): condition, or performed
	zzC18PNothing = 3 // nothing matches: nothing changes
	zzC18PMisfit  = 4 // definite path whose selector kind does not fit the data (key on a non-object, index on a non-array): refused
)

// zzC18PSet: every container the path without its last selector selects gets
// v as the member the last selector names (a key: set or added; an index inside
// the array: replaced; a wildcard: every member replaced).  For a definite path
// (keys and indices only) the missing containers on the way are created: a
// missing key gets an object, or an array long enough for the following
// non-negative index, filled with null; a definite path that does not fit the
// data (key on a non-object, index on a non-array or outside the array) is
// refused.
func zzC18PSet(root *zzC18PN, frags []zzC18PF, v *zzC18PN) int {
	sel := zzC18PSelectors(frags)
	if len(sel) == 0 {
		return zzC18PRefuse // the root itself can not be replaced through a path
	}
	last := sel[len(sel)-1]
	switch last.k {
	case zzC18PFSlice, zzC18PFDescent:
		return zzC18PEither
	}
	if !zzC18PDefinite(frags) {
		fd := zzC18PLocate(root, sel[:len(sel)-1])
		did := false
		for j := 0; j < len(fd.locs); j++ {
			node := fd.locs[j].node
			switch last.k {
			case zzC18PFKey:
				if node.k == zzC18PObj {
					if c, has := node.zzChild(last.key); has {
						node.el[c] = v.zzCopy()
					} else {
						node.ks = append(node.ks, last.key)
						node.el = append(node.el, v.zzCopy())
					}
					did = true
				}
			case zzC18PFIdx:
				if node.k == zzC18PArr {
					c := last.idx
					if c < 0 {
						c = len(node.el) + c
					}
					if 0 <= c && c < len(node.el) {
						node.el[c] = v.zzCopy()
						did = true
					}
				}
			case zzC18PFWild:
				if node.k == zzC18PArr || node.k == zzC18PObj {
					for c := 0; c < len(node.el); c++ {
						node.el[c] = v.zzCopy()
						did = true
					}
				}
			}
		}
		if !did {
			return zzC18PNothing
		}
		return zzC18POk
	}
	node := root
	for j := 0; j < len(sel); j++ {
		f := sel[j]
		last := j == len(sel)-1
		switch f.k {
		case zzC18PFKey:
			if node.k != zzC18PObj {
				if node.k == zzC18PArr || j == 0 {
					return zzC18PMisfit
				}
				return zzC18PRefuse // a scalar below the root can not be followed
			}
			if c, has := node.zzChild(f.key); has {
				if last {
					node.el[c] = v.zzCopy()
					return zzC18POk
				}
				node = node.el[c]
				continue
			}
			var child *zzC18PN
			if last {
				child = v.zzCopy()
			} else if sel[j+1].k == zzC18PFKey {
				child = &zzC18PN{k: zzC18PObj}
			} else {
				n := sel[j+1].idx
				if n < 0 {
					return zzC18PRefuse
				}
				child = &zzC18PN{k: zzC18PArr}
				for c := 0; c <= n; c++ {
					child.el = append(child.el, &zzC18PN{k: zzC18PNull})
				}
			}
			node.ks = append(node.ks, f.key)
			node.el = append(node.el, child)
			node = child
		case zzC18PFIdx:
			if node.k != zzC18PArr {
				if node.k == zzC18PObj || j == 0 {
					return zzC18PMisfit
				}
				return zzC18PRefuse
			}
			c := f.idx
			if c < 0 {
				c = len(node.el) + c
			}
			if c < 0 || len(node.el) <= c {
				return zzC18PRefuse // arrays are not extended
			}
			if last {
				node.el[c] = v.zzCopy()
				return zzC18POk
			}
			node = node.el[c]
		}
	}
	return zzC18POk
}

func zzC18PPut(root *zzC18PN, steps []zzC18PStep, v *zzC18PN) {
	node := root
	for j := 0; j < len(steps); j++ {
		var c int
		if steps[j].isKey {
			c, _ = node.zzChild(steps[j].key)
		} else {
			c = steps[j].idx
		}
		if j == len(steps)-1 {
			node.el[c] = v
			return
		}
		node = node.el[c]
	}
}

// ---- reference modify ----

// zzC18PModify replaces every selected node by a copy of v; nothing is created.
func zzC18PModify(root *zzC18PN, frags []zzC18PF, v *zzC18PN) (int, *zzC18PN) {
	sel := zzC18PSelectors(frags)
	if len(sel) == 0 {
		return zzC18POk, v.zzCopy() // the root itself
	}
	if sel[len(sel)-1].k == zzC18PFDescent {
		return zzC18PEither, root
	}
	fd := zzC18PLocate(root, frags)
	if len(fd.locs) == 0 {
		return zzC18PNothing, root
	}
	// the matches are those of the document as it was: a replaced node takes its
	// replaced descendants with it (descendants first, ancestors last)
	for j := len(fd.locs) - 1; 0 <= j; j-- {
		zzC18PPut(root, fd.locs[j].steps, v.zzCopy())
	}
	return zzC18POk, root
}

// ---- reference remove ----

// zzC18PRemove deletes every selected node from its parent; array elements
// after a deleted one move down.  Returns the outcome and the new root.
func zzC18PRemove(root *zzC18PN, frags []zzC18PF) (int, *zzC18PN) {
	sel := zzC18PSelectors(frags)
	if len(sel) == 0 {
		return zzC18PRefuse, root
	}
	if sel[len(sel)-1].k == zzC18PFDescent {
		return zzC18PRefuse, root
	}
	if 1 < len(sel) && sel[len(sel)-2].k == zzC18PFDescent {
		// jp: "can not modify with an expression where the last fragment is a
		// Descent" (the path without its last selector): a condition is raised
		return zzC18PEither, root
	}
	fd := zzC18PLocate(root, frags)
	if len(fd.locs) == 0 {
		return zzC18PNothing, root
	}
	dead := map[*zzC18PN]bool{}
	for j := 0; j < len(fd.locs); j++ {
		dead[fd.locs[j].node] = true
	}
	zzC18PSweep(root, dead)
	return zzC18POk, root
}

func zzC18PSweep(node *zzC18PN, dead map[*zzC18PN]bool) {
	if node.k != zzC18PArr && node.k != zzC18PObj {
		return
	}
	var el []*zzC18PN
	var ks []string
	for j := 0; j < len(node.el); j++ {
		if dead[node.el[j]] {
			continue
		}
		zzC18PSweep(node.el[j], dead)
		el = append(el, node.el[j])
		if node.k == zzC18PObj {
			ks = append(ks, node.ks[j])
		}
	}
	node.el = el
	node.ks = ks
}

// ---- comparing the bag with the reference ----

// zzC18PSameAny: the Go data held by the bag is the reference tree.
func zzC18PSameAny(n *zzC18PN, a any) bool {
	switch n.k {
	case zzC18PNull:
		return a == nil
	case zzC18PTrue:
		b, ok := a.(bool)
		return ok && b
	case zzC18PFalse:
		b, ok := a.(bool)
		return ok && !b
	case zzC18PInt:
		x, ok := a.(int64)
		return ok && x == n.i
	case zzC18PStr:
		x, ok := a.(string)
		return ok && x == n.s
	case zzC18PFlt:
		x, ok := a.(float64)
		return ok && x == n.f
	case zzC18PArr:
		x, ok := a.([]any)
		if !ok || len(x) != len(n.el) {
			return false
		}
		for j := 0; j < len(x); j++ {
			if !zzC18PSameAny(n.el[j], x[j]) {
				return false
			}
		}
		return true
	case zzC18PObj:
		x, ok := a.(map[string]any)
		if !ok || len(x) != len(n.el) {
			return false
		}
		for j := 0; j < len(n.ks); j++ {
			m, has := x[n.ks[j]]
			if !has || !zzC18PSameAny(n.el[j], m) {
				return false
			}
		}
		return true
	}
	return false
}

// zzC18PSameLisp: the Lisp datum a bag function returned for a value is what
// the reference node converts to (null and false are nil, an empty array or
// object is nil, an object is an assoc list with string keys in any order).
func zzC18PSameLisp(n *zzC18PN, o slip.Object) bool {
	switch n.k {
	case zzC18PNull, zzC18PFalse:
		return o == nil
	case zzC18PTrue:
		return o == slip.True
	case zzC18PInt:
		x, ok := o.(slip.Fixnum)
		return ok && int64(x) == n.i
	case zzC18PStr:
		x, ok := o.(slip.String)
		return ok && string(x) == n.s
	case zzC18PFlt:
		x, ok := o.(slip.DoubleFloat)
		return ok && float64(x) == n.f
	case zzC18PArr:
		if len(n.el) == 0 {
			return zzC18PEmptyLisp(o)
		}
		x, ok := o.(slip.List)
		if !ok || len(x) != len(n.el) {
			return false
		}
		for j := 0; j < len(x); j++ {
			if !zzC18PSameLisp(n.el[j], x[j]) {
				return false
			}
		}
		return true
	case zzC18PObj:
		if len(n.el) == 0 {
			return zzC18PEmptyLisp(o)
		}
		x, ok := o.(slip.List)
		if !ok || len(x) != len(n.el) {
			return false
		}
		for j := 0; j < len(n.ks); j++ {
			found := false
			for c := 0; c < len(x); c++ {
				pair, isPair := x[c].(slip.List)
				if !isPair || len(pair) != 2 {
					return false
				}
				key, isKey := pair[0].(slip.String)
				if !isKey || string(key) != n.ks[j] {
					continue
				}
				var cdr slip.Object = pair[1]
				if tail, isTail := cdr.(slip.Tail); isTail {
					cdr = tail.Value
				}
				if !zzC18PSameLisp(n.el[j], cdr) {
					return false
				}
				found = true
			}
			if !found {
				return false
			}
		}
		return true
	}
	return false
}

func zzC18PEmptyLisp(o slip.Object) bool {
	if o == nil {
		return true
	}
	l, ok := o.(slip.List)
	return ok && len(l) == 0
}

// zzC18PMatch: the values delivered (in order, or in any order when the path
// leaves the order open) are the reference matches.
func zzC18PMatch(fd *zzC18PFound, got []slip.Object) bool {
	if len(got) != len(fd.locs) {
		return false
	}
	if !fd.unordered {
		for j := 0; j < len(got); j++ {
			if !zzC18PSameLisp(fd.locs[j].node, got[j]) {
				return false
			}
		}
		return true
	}
	used := make([]bool, len(got))
	return zzC18PAssign(fd, got, used, 0)
}

// zzC18PAssign: a one-to-one assignment of the reference matches j.. to the
// unused delivered values exists (an empty container converts to nil or (),
// so a greedy choice can take the nil another match needs).
func zzC18PAssign(fd *zzC18PFound, got []slip.Object, used []bool, j int) bool {
	if j == len(fd.locs) {
		return true
	}
	for c := 0; c < len(got); c++ {
		if !used[c] && zzC18PSameLisp(fd.locs[j].node, got[c]) {
			used[c] = true
			if zzC18PAssign(fd, got, used, j+1) {
				return true
			}
			used[c] = false
		}
	}
	return false
}

// ---- values that get set ----

// zzC18PValue: the Lisp datum handed to bag-set and the reference node it
// must become in the bag.
func zzC18PValue(kind int, tag string) (slip.Object, *zzC18PN) {
	switch kind {
	case 0:
		x := vrt.Int64("vi" + tag)
		return slip.Fixnum(x), &zzC18PN{k: zzC18PInt, i: x}
	case 1:
		s := vrt.String("vs"+tag, 2)
		return slip.String(s), &zzC18PN{k: zzC18PStr, s: s}
	case 2:
		return nil, &zzC18PN{k: zzC18PNull}
	case 3:
		x := vrt.Int64("vl" + tag)
		return slip.List{slip.Fixnum(x), slip.String("q")},
			&zzC18PN{k: zzC18PArr, el: []*zzC18PN{{k: zzC18PInt, i: x}, {k: zzC18PStr, s: "q"}}}
	case 4:
		x := vrt.Int64("va" + tag)
		return slip.List{slip.List{slip.String("a"), slip.Tail{Value: slip.Fixnum(x)}}},
			&zzC18PN{k: zzC18PObj, ks: []string{"a"}, el: []*zzC18PN{{k: zzC18PInt, i: x}}}
	}
	if kind == 6 {
		// text handed to (bag-parse bag text path) instead of a datum to bag-set
		return zzC18PParseText, &zzC18PN{k: zzC18PArr, el: []*zzC18PN{{k: zzC18PInt, i: 7}, {k: zzC18PStr, s: "q"}}}
	}
	return slip.True, &zzC18PN{k: zzC18PTrue}
}

// zzC18PParseText is the value of kind 6: the set is done by bag-parse.
var zzC18PParseText = slip.String(`[7 "q"]`)

const zzC18PValueKinds = 7

// ---- driving the real functions ----

type zzC18PBag struct {
	scope *slip.Scope
	inst  *flavors.Instance
	via   int // 0 functions bag-get ..., 1 methods (send bag :get ...)
	nset  int // number of the current operation (1..)
}

func zzC18PNewBag(via int, content any) *zzC18PBag {
	b := &zzC18PBag{scope: slip.NewScope(), via: via}
	mk := zzC18BRun(func() slip.Object { return b.scope.Eval(slip.List{slip.Symbol("make-bag"), nil}, 0) })
	inst, isInst := mk.val.(*flavors.Instance)
	vrt.Assert(mk.class == 0 && isInst, "could not make a bag")
	b.inst = inst
	b.inst.Any = content
	return b
}

func (b *zzC18PBag) call(fn string, method string, args ...slip.Object) zzC18BOut {
	var form slip.List
	if b.via == 0 {
		form = slip.List{slip.Symbol(fn), b.inst}
	} else {
		form = slip.List{slip.Symbol("send"), b.inst, slip.Symbol(method)}
	}
	form = append(form, args...)
	return zzC18PRun(func() slip.Object { return b.scope.Eval(form, 0) })
}

// zzC18PRun: like zzC18BRun, and a Go run-time fault that Function.Eval
// (normalAfter, trace.go) wrapped into an error condition is still class 3.
func zzC18PRun(f func() slip.Object) (out zzC18BOut) {
	before := vrt.Faults()
	out = zzC18BRun(f)
	if out.class == 1 {
		if vrt.Symbolic() {
			if before < vrt.Faults() {
				out.class = 3
			}
		} else if strings.Contains(out.fault, "runtime error") || strings.Contains(out.fault, "makeslice") {
			out.class = 3
		}
	}
	return
}

func (b *zzC18PBag) set(v slip.Object, path slip.Object) zzC18BOut {
	return b.call("bag-set", ":set", zzC18BQuote(v), path)
}

// parse sets the value parsed from text at the path: (bag-parse bag text path).
func (b *zzC18PBag) parse(text slip.Object, path slip.Object) zzC18BOut {
	return b.call("bag-parse", ":parse", text, path)
}

// modify replaces every match by the (quoted) datum: (bag-modify bag (lambda (x) 'v) path).
func (b *zzC18PBag) modify(v slip.Object, path slip.Object) zzC18BOut {
	fn := slip.List{slip.Symbol("lambda"), slip.List{slip.Symbol("x")}, zzC18BQuote(v)}
	return b.call("bag-modify", ":modify", fn, path)
}

func (b *zzC18PBag) remove(path slip.Object) zzC18BOut {
	return b.call("bag-remove", ":remove", path)
}

func (b *zzC18PBag) get(path slip.Object) zzC18BOut { return b.call("bag-get", ":get", path) }
func (b *zzC18PBag) has(path slip.Object) zzC18BOut { return b.call("bag-has", ":has", path) }
func (b *zzC18PBag) getAll(path slip.Object) zzC18BOut {
	return b.call("bag-get-all", ":get-all", path, slip.Symbol(":native"))
}

var zzC18PWalkFn = slip.ReadString("(lambda (x) (setq zzc18acc (cons x zzc18acc)))", slip.NewScope())[0]

// walk returns the values the walk function was called with, in call order.
func (b *zzC18PBag) walk(path slip.Object) (zzC18BOut, []slip.Object) {
	b.scope.Let(slip.Symbol("zzc18acc"), nil)
	r := b.call("bag-walk", ":walk", zzC18PWalkFn, path)
	acc, _ := b.scope.Get(slip.Symbol("zzc18acc")).(slip.List)
	out := make([]slip.Object, 0, len(acc))
	for j := len(acc) - 1; 0 <= j; j-- {
		out = append(out, acc[j])
	}
	return r, out
}

// observe checks has / get / get-all / walk for one path against the reference.
func (b *zzC18PBag) observe(ref *zzC18PN, p zzC18PPath, path slip.Object) {
	fd := zzC18PLocate(ref, p.frags)
	at := " (path " + p.text + ")"
	h := b.has(path)
	vrt.Assert(h.class != 3, "Go run-time fault in bag-has"+at)
	vrt.Assert(h.class == 0, "bag-has signals for a readable path"+at)
	if 0 < len(fd.locs) {
		vrt.Assert(h.val == slip.True, "bag-has is nil for a path the reference finds"+at)
	} else {
		vrt.Assert(h.val == nil, "bag-has is t for a path the reference does not find"+at)
	}
	g := b.get(path)
	vrt.Assert(g.class != 3, "Go run-time fault in bag-get"+at)
	vrt.Assert(g.class == 0, "bag-get signals for a readable path"+at)
	switch {
	case len(fd.locs) == 0:
		vrt.Assert(g.val == nil, "bag-get returns a value for a path the reference does not find"+at)
	case !fd.unordered || len(fd.locs) == 1:
		vrt.Assert(zzC18PSameLisp(fd.locs[0].node, g.val), "bag-get does not return the first match of the reference"+at)
	default:
		any1 := false
		for j := 0; j < len(fd.locs) && !any1; j++ {
			any1 = zzC18PSameLisp(fd.locs[j].node, g.val)
		}
		vrt.Assert(any1, "bag-get returns something that is no match of the reference"+at)
	}
	ga := b.getAll(path)
	vrt.Assert(ga.class != 3, "Go run-time fault in bag-get-all"+at)
	vrt.Assert(ga.class == 0, "bag-get-all signals for a readable path"+at)
	all, _ := ga.val.(slip.List)
	vrt.Assert(zzC18PMatch(fd, []slip.Object(all)), "bag-get-all does not return the matches of the reference"+at)
	w, seen := b.walk(path)
	vrt.Assert(w.class != 3, "Go run-time fault in bag-walk"+at)
	vrt.Assert(w.class == 0, "bag-walk signals for a readable path"+at)
	vrt.Assert(zzC18PMatch(fd, seen), "bag-walk does not visit the matches of the reference"+at)
}

// zzC18PSliceEndHits: the path ends in a slice with a written end, and for
// some array it is applied to the element at the end position exists and is
// not before the start: reading the end as inclusive selects more than reading
// it as exclusive.
func zzC18PSliceEndHits(root *zzC18PN, frags []zzC18PF) bool {
	sel := zzC18PSelectors(frags)
	if len(sel) == 0 {
		return false
	}
	last := sel[len(sel)-1]
	if last.k != zzC18PFSlice || !last.hasHi {
		return false
	}
	fd := zzC18PLocate(root, sel[:len(sel)-1])
	for j := 0; j < len(fd.locs); j++ {
		node := fd.locs[j].node
		if node.k != zzC18PArr {
			continue
		}
		n := len(node.el)
		lo := 0
		if last.hasLo {
			lo = last.lo
			if lo < 0 {
				lo = n + lo
			}
		}
		e := last.hi
		if e < 0 {
			e = n + e
		}
		if 0 <= e && e < n && lo <= e {
			return true
		}
	}
	return false
}

// zzC18PGroupSizes counts, per set operation, the copies of its structured
// value that are in the document.
func zzC18PGroupSizes(n *zzC18PN, sizes map[int]int) {
	if n.grp != 0 {
		sizes[n.grp]++
	}
	for j := 0; j < len(n.el); j++ {
		zzC18PGroupSizes(n.el[j], sizes)
	}
}

// zzC18PInsideShared: the operation changes a container that is, or lies
// inside, an array/object value which one earlier set operation placed at two
// or more locations.
func zzC18PInsideShared(root *zzC18PN, op int, frags []zzC18PF) bool {
	sizes := map[int]int{}
	zzC18PGroupSizes(root, sizes)
	shared := false
	for _, c := range sizes {
		if 1 < c {
			shared = true
		}
	}
	if !shared {
		return false
	}
	sel := zzC18PSelectors(frags)
	if len(sel) == 0 {
		return false
	}
	// the containers the operation changes: what the path without its last
	// selector selects (for a definite path: as far down as the document goes)
	parents := zzC18PLocate(root, sel[:len(sel)-1])
	chains := make([][]zzC18PStep, 0, len(parents.locs)+1)
	for j := 0; j < len(parents.locs); j++ {
		chains = append(chains, parents.locs[j].steps)
	}
	if len(parents.locs) == 0 && zzC18PDefinite(frags) && op == 0 {
		node := root
		var steps []zzC18PStep
		for j := 0; j < len(sel)-1; j++ {
			f := sel[j]
			if f.k == zzC18PFKey && node.k == zzC18PObj {
				c, has := node.zzChild(f.key)
				if !has {
					break
				}
				steps = zzC18PAppendStep(steps, zzC18PStep{isKey: true, key: f.key})
				node = node.el[c]
				continue
			}
			if f.k == zzC18PFIdx && node.k == zzC18PArr {
				c := f.idx
				if c < 0 {
					c = len(node.el) + c
				}
				if c < 0 || len(node.el) <= c {
					break
				}
				steps = zzC18PAppendStep(steps, zzC18PStep{idx: c})
				node = node.el[c]
				continue
			}
			break
		}
		chains = append(chains, steps)
	}
	for j := 0; j < len(chains); j++ {
		node := root
		if node.grp != 0 && 1 < sizes[node.grp] {
			return true
		}
		for c := 0; c < len(chains[j]); c++ {
			st := chains[j][c]
			if st.isKey {
				at, _ := node.zzChild(st.key)
				node = node.el[at]
			} else {
				node = node.el[st.idx]
			}
			if node.grp != 0 && 1 < sizes[node.grp] {
				return true
			}
		}
	}
	return false
}

// zzC18PShortArray: an indefinite path ending in an index meets an array the
// index is outside of.
func zzC18PShortArray(root *zzC18PN, frags []zzC18PF) bool {
	sel := zzC18PSelectors(frags)
	if len(sel) == 0 || zzC18PDefinite(frags) {
		return false
	}
	last := sel[len(sel)-1]
	if last.k != zzC18PFIdx {
		return false
	}
	fd := zzC18PLocate(root, sel[:len(sel)-1])
	for j := 0; j < len(fd.locs); j++ {
		node := fd.locs[j].node
		if node.k != zzC18PArr {
			continue
		}
		c := last.idx
		if c < 0 {
			c = len(node.el) + c
		}
		if c < 0 || len(node.el) <= c {
			return true
		}
	}
	return false
}

// step performs one mutation on the bag and on the reference and compares.
// op 0 set, 1 remove, 2 modify.  Returns the new reference root.
func (b *zzC18PBag) step(ref *zzC18PN, op int, p zzC18PPath, vk int, tag string) *zzC18PN {
	return b.stepAt(ref, op, p, slip.String(p.text), vk, tag)
}

func (b *zzC18PBag) stepAt(ref *zzC18PN, op int, p zzC18PPath, path slip.Object, vk int, tag string) *zzC18PN {
	// known: one set that matches several locations stores the same Go slice/map
	// in all of them; a later change inside one copy shows in the others
	// (the region is a concrete fact about the history; Carve is only called
	// where it holds, so that a probe run is not ended by the earlier steps)
	if zzC18PInsideShared(ref, op, p.frags) {
		vrt.Carve("C18-set-multi-match-shares-one-value", true)
	}
	b.nset++
	before := ref.zzCopy()
	var r zzC18BOut
	var want int
	if op == 0 {
		v, vn := zzC18PValue(vk, tag)
		if vn.k == zzC18PArr || vn.k == zzC18PObj {
			vn.grp = b.nset
		}
		// known: a wildcard/descent set ending in an index stops with a condition at
		// the first array that is too short, after having set some of the matches
		vrt.Carve("C18-set-wildcard-index-short-array-partial", zzC18PShortArray(ref, p.frags))
		want = zzC18PSet(ref, p.frags, vn)
		// known: a definite path that does not fit the data is silently ignored
		vrt.Carve("C18-set-misfit-path-silently-ignored", want == zzC18PMisfit)
		if vk == 6 {
			r = b.parse(v, path)
		} else {
			r = b.set(v, path)
		}
		vrt.Assert(r.class != 3, "Go run-time fault in bag-set")
	} else if op == 2 {
		if vk == 4 || vk == 6 {
			vk = 0 // the function's result goes through slip.Simplify, which has no objects
		}
		v, vn := zzC18PValue(vk, tag)
		// known: modify, like remove, reads the end of a slice as inclusive
		vrt.Carve("C18-remove-slice-end-inclusive", zzC18PSliceEndHits(ref, p.frags))
		// known: modify with the path $ leaves a null or scalar content as it is
		vrt.Carve("C18-modify-root-scalar-ignored", len(zzC18PSelectors(p.frags)) == 0 && ref.k != zzC18PArr && ref.k != zzC18PObj)
		want, ref = zzC18PModify(ref, p.frags, vn)
		r = b.modify(v, path)
		vrt.Assert(r.class != 3, "Go run-time fault in bag-modify")
	} else {
		// known: remove reads the end of a slice as inclusive, get as exclusive
		vrt.Carve("C18-remove-slice-end-inclusive", zzC18PSliceEndHits(ref, p.frags))
		want, ref = zzC18PRemove(ref, p.frags)
		r = b.remove(path)
		vrt.Assert(r.class != 3, "Go run-time fault in bag-remove")
	}
	vrt.Assert(r.class == 0 || r.class == 1, "neither a value nor a condition")
	switch want {
	case zzC18POk:
		vrt.Assert(r.class == 0, "the operation signals although the path fits the data")
		vrt.Assert(zzC18PSameAny(ref, b.inst.Any), "after the operation the bag is not what the reference model holds")
	case zzC18PNothing:
		if r.class == 0 {
			vrt.Assert(zzC18PSameAny(before, b.inst.Any), "an operation on a path that selects nothing changed the bag")
		}
		ref = before
	case zzC18PRefuse, zzC18PMisfit:
		vrt.Assert(r.class == 1, "no condition although the operation can not be performed")
		// the containers created on the way down may stay (they are not disjoint
		// from the path); nothing else may change
		if !zzC18PSameAny(ref, b.inst.Any) {
			ref = before
		}
		vrt.Assert(zzC18PSameAny(ref, b.inst.Any), "a refused operation changed the bag")
	case zzC18PEither:
		ref = before
		vrt.Assert(r.class == 1, "an operation jp does not offer for this form of path did not signal")
		vrt.Assert(zzC18PSameAny(ref, b.inst.Any), "a refused operation changed the bag")
	}
	return ref
}

// zzC18PEffective: the k-th (modulo their number) operation of the grid that
// changes the document according to the reference model.
func zzC18PEffective(ref *zzC18PN, k int) int {
	np := len(zzC18PPaths)
	var eff []int
	for o := 0; o < 3*np; o++ {
		p := zzC18PPaths[o%np]
		c := ref.zzCopy()
		if o/np == 2 {
			if zzC18PSliceEndHits(c, p.frags) || (len(zzC18PSelectors(p.frags)) == 0 && c.k != zzC18PArr && c.k != zzC18PObj) {
				continue
			}
			if w, _ := zzC18PModify(c, p.frags, &zzC18PN{k: zzC18PTrue}); w == zzC18POk {
				eff = append(eff, o)
			}
		} else if o/np == 0 {
			if zzC18PShortArray(c, p.frags) {
				continue
			}
			if zzC18PSet(c, p.frags, &zzC18PN{k: zzC18PTrue}) == zzC18POk {
				eff = append(eff, o)
			}
		} else {
			if zzC18PSliceEndHits(c, p.frags) {
				continue
			}
			if w, _ := zzC18PRemove(c, p.frags); w == zzC18POk {
				eff = append(eff, o)
			}
		}
	}
	if len(eff) == 0 {
		return 0
	}
	return eff[k%len(eff)]
}

// VerifC18PathHistory: a history of up to three set/remove operations on one
// document, every state compared with the reference model, and at the end all
// paths of the grid observed through has/get/get-all/walk.
//
//	doc   index into zzC18PDocs
//	via   0 functions, 1 flavor methods
//	o1    first operation: op*len(paths)+path   (op 0 set, 1 remove, 2 modify)
//	o2,o3 following operations, -1 none, -2 all of them (engine choice)
//	      any of them: -10-k the k-th operation (modulo their number) that the
//	      reference model performs on the current document (not refused, not
//	      selecting nothing, outside the known-finding regions)
func VerifC18PathHistory(doc, via, o1, o2, o3 int) {
	g := zzC18PGen{src: zzC18PDocs[doc]}
	content, ref := g.value()
	b := zzC18PNewBag(via, content)
	np := len(zzC18PPaths)
	ops := []int{o1, o2, o3}
	for j := 0; j < len(ops); j++ {
		o := ops[j]
		if o == -1 {
			break
		}
		if o == -2 {
			o = vrt.Choice("op"+strconv.Itoa(j), 3*np)
		}
		if o <= -10 {
			o = zzC18PEffective(ref, -10-o)
			ops[j] = o
		}
		vk := (o + j + doc) % zzC18PValueKinds
		vrt.Note("op", o/np, zzC18PPaths[o%np].text, vk)
		ref = b.step(ref, o/np, zzC18PPaths[o%np], vk, strconv.Itoa(j))
	}
	vrt.Reach("compared")
	for j := 0; j < np; j++ {
		// one operation: the path operated on and every second other one is
		// observed; longer histories: the paths operated on and every fourth other
		// one (the state itself was compared after every step; over the operations
		// of the grid every path is observed on every document many times)
		if (o2 == -1 && (j+doc+ops[0])%2 == 0) || (j+doc+ops[0])%4 == 0 || j == ops[0]%np || (0 <= ops[1] && j == ops[1]%np) || (0 <= ops[2] && j == ops[2]%np) {
			b.observe(ref, zzC18PPaths[j], slip.String(zzC18PPaths[j].text))
		}
	}
}

// VerifC18PathIndex: the indices of the path are symbolic (any int); the path
// is handed to the bag functions as a bag-path object, so no path text is
// involved.  One operation, the state compared, then has/get/get-all/walk.
//
//	form  0 [n] on [iii]            1 b[n] on {ai b[iis]}      2 [n][m] on [[ii][s]]
//	      3 b[n].a on {a{..}b[{ai}{as}]}   4 [*][n] on [[ii][s]]   5 ..[n] on {a{a{ai}}b[[is]]}
//	      6 [n] on {aibs} (index applied to an object)   7 [n] on [] (empty array)
//	op    0 none, 1 set, 2 remove
//	via   0 functions, 1 flavor methods
func VerifC18PathIndex(form, op, via int) {
	n := vrt.Int("n")
	var doc int
	var x jp.Expr
	var frags []zzC18PF
	switch form {
	case 0:
		doc, x, frags = 3, jp.Expr{jp.Nth(n)}, []zzC18PF{zzC18PI(n)}
	case 1:
		doc, x, frags = 1, jp.Expr{jp.Child("b"), jp.Nth(n)}, []zzC18PF{zzC18PK("b"), zzC18PI(n)}
	case 2:
		m := vrt.Int("m")
		doc, x, frags = 5, jp.Expr{jp.Nth(n), jp.Nth(m)}, []zzC18PF{zzC18PI(n), zzC18PI(m)}
	case 3:
		doc, x, frags = 2, jp.Expr{jp.Root('$'), jp.Child("b"), jp.Nth(n), jp.Child("a")},
			[]zzC18PF{zzC18PR, zzC18PK("b"), zzC18PI(n), zzC18PK("a")}
	case 4:
		doc, x, frags = 5, jp.Expr{jp.Wildcard('*'), jp.Nth(n)}, []zzC18PF{zzC18PW, zzC18PI(n)}
	case 5:
		doc, x, frags = 13, jp.Expr{jp.Descent('.'), jp.Nth(n)}, []zzC18PF{zzC18PD, zzC18PI(n)}
	case 6:
		doc, x, frags = 0, jp.Expr{jp.Nth(n)}, []zzC18PF{zzC18PI(n)}
	default:
		doc, x, frags = 7, jp.Expr{jp.Nth(n)}, []zzC18PF{zzC18PI(n)}
	}
	g := zzC18PGen{src: zzC18PDocs[doc]}
	content, ref := g.value()
	b := zzC18PNewBag(via, content)
	p := zzC18PPath{text: "", frags: frags}
	path := Path(x)
	if 0 < op {
		ref = b.stepAt(ref, op-1, p, path, (form+op)%zzC18PValueKinds, "x")
	}
	vrt.Reach("compared")
	b.observe(ref, p, path)
}

// zzC18PStubNthAppend replaces (jp.Nth).Append in C18.path.index: the decimal
// text of a path index only goes into condition messages and printed
// representations; writing a symbolic index forks once per digit count.
func zzC18PStubNthAppend(f jp.Nth, buf []byte, bracket, first bool) []byte {
	return append(buf, "[n]"...)
}
