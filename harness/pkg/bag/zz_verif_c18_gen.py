#!/usr/bin/env python3
# Generates the case lists of the C18 obligations C18.path.* and C18.text.*
# (harness: zz_verif_c18p.go, zz_verif_c18w.go) into obligations.d/C18.json.
# The obligations of the Go data bridge (C18.scalar, C18.tree, C18.print,
# C18.bag.*) already in the file are kept as they are.
import json, os

SPEC = os.path.join(os.path.dirname(__file__), "..", "..", "obligations.d", "C18.json")
NP = 29      # len(zzC18PPaths)
ND = 15      # len(zzC18PDocs)
NWD = 26     # len(zzC18WDocs)
NWS = 29     # len(zzC18WStrs)
NCOMBO = 12  # len(zzC18WCombos)

old = [o for o in json.load(open(SPEC)) if not (o["id"].startswith("C18.path.") or o["id"].startswith("C18.text."))]
for o in old:
    if o["id"] == "C18.scalar":
        for tier in ("quick", "thorough"):
            for c in ([7, 1], [11, 1]):
                if c not in o["cases"][tier]:
                    o["cases"][tier].append(c)
        extra = (" Since fix b2e735f uint/uint64 values from 2^63 on become a bignum that Simplify returns as decimal text: the symbolic "
                 "cases [7,0] and [11,0] are restricted to values below 2^63 (the engine can not write the text of a symbolic big integer) "
                 "and the cases [7,1], [11,1] check 2^63, 2^63+12345 and 2^64-1 concretely.")
        if "cases [7,1]" not in o["note"]:
            o["note"] += extra

# ---- path histories ----
singles_q = [[d, (d + o) % 2, o, -1, -1] for d in range(ND) for o in range(3 * NP) if o < 2 * NP or d % 2 == 0]
singles_t = [[d, v, o, -1, -1] for d in range(ND) for v in range(2) for o in range(3 * NP)]
pairs_q = [[d, d % 2, -10 - (d * 3) % 11, -2, -1] for d in range(ND)]
pairs_t = [[d, v, -10 - k, -2, -1] for d in range(ND) for v in range(2) for k in range(16)]
triples_q = [[d, d % 2, -10 - 2, -10 - 7, -2] for d in range(0, ND, 3)]
triples_t = [[d, (d + k1 + k2) % 2, -10 - k1, -10 - k2, -2] for d in range(ND) for k1 in (0, 4, 8, 12) for k2 in (1, 6, 11)]

hist_note = (
    "Histories of 1..3 bag-set / bag-remove / bag-modify operations (or (send bag :set/:remove/:modify ...), parameter via) on one bag, through the real "
    "functions of the registry (scope.Eval). After EVERY operation the Go data held by the bag (inst.Any) is compared with an independent "
    "reference JSON-path model written in the harness (own tree type, own locate/set/remove, paths translated by hand into fragment "
    "tables; it never calls ojg): this is the 'set makes get return it and leaves every disjoint path unchanged' and 'remove agrees with "
    "get' part, checked on the whole document. After the last operation bag-has, bag-get, bag-get-all :native and bag-walk (or the "
    ":has/:get/:get-all/:walk methods) are called for the paths of the grid and compared with the reference matches (order as the path "
    "determines it; any order where it crosses object members or a descent). Histories of one operation observe the path operated on "
    "plus every second path of the grid, longer ones the paths operated on plus every fourth (rotating with document and operation). "
    "What runs: pkg/bag (set.go, remove.go, modify.go, parse.go with a path, get.go, has.go, get-all.go, walk.go, flavor.go methods, ObjectToBag, SimpleObject) AND "
    "github.com/ohler55/ojg/jp (path parser, Set, MustRemove, MustModify, First, Get, Has) are executed by the engine from their SSA (route A: "
    "the ojg packages are interpreted for property C18, engine/x_c18.go). "
    "Symbolic: every integer leaf of the document (full int64) and every string leaf (2 unconstrained bytes), and the value that is set "
    "(fixnum, 2 byte string, nil, t, a list (i \"q\") -> array, an assoc list ((\"a\" . i)) -> object, or the concrete text [7 \"q\"] set through (bag-parse bag text path); kind chosen by (op+step+doc) mod 7; "
    "bag-modify is called with (lambda (x) 'value), which replaces every match by the value). "
    "Concrete (case parameters): the document shape (15 shapes of depth <= 3: flat/nested objects and arrays, root arrays, arrays of "
    "objects, empty object/array, null root, scalar root, null/true/false/float/large integer leaves), the path text (29 paths: keys, "
    "indices incl. negative, $ root, bracketed key, wildcard * and [*], slices [0:2] [1:] [:-1], descent ..a $..[0] a..a, paths that "
    "create members x.y x[1] a.b.c, paths out of range b[5], root array paths [0] [-1] [0][1] [*][0]) and the operation sequence. "
    "Parameters: doc, via, o1, o2, o3 (op*29+path, op 0 set 1 remove 2 modify; -1 none; -2 all 87 operations by engine choice; -10-k the k-th "
    "operation that changes the current document according to the reference). Quick: all 58 single set/remove operations on all 15 "
    "documents and the 29 modify operations on every second one, one first operation x all 87 second operations per document, one "
    "two-step prefix x 87 third operations on every third document; thorough: all 87 singles in both call styles, 16 first operations "
    "x 87, 12 two-step prefixes x 87 third operations per document. "
    "Expected outcome classes of the reference: performed (state equal), selects nothing (state unchanged), refused (a condition must be "
    "raised; containers created on the way down may stay, nothing else may change), form of path jp does not offer (set ending in a "
    "slice/descent/root, remove with a descent before the last selector, modify ending in a descent: a condition must be raised, state "
    "unchanged). Go run-time faults "
    "wrapped into conditions by Function.Eval are detected (vrt.Faults). "
    "Known-finding regions are assumed away here and probed by C18.path.findings.")

findings_note = (
    "Same entry as C18.path.history; five cases, one inside each known-finding region of the path operations (probed by ./check): "
    "bag-set with a key on an array (silently ignored), bag-remove with a slice with a written end (end read as inclusive), bag-set "
    "with [*][0] over an array that contains an empty array (condition after a partial update), set * := a list followed by a set inside one of the copies (the copies are one Go slice), bag-modify with the path $ on a scalar content (ignored).")

index_note = (
    "The same observations and one set/remove step as C18.path.history, with SYMBOLIC path indices: the path is a bag-path object built "
    "from jp fragments (no text), its index n (and m) is an unconstrained symbolic int; the engine forks on jp's and the reference's "
    "own range tests, so the agreement of has/get/get-all/walk/set/remove with the reference is decided for every index value, negative "
    "and out of range included. Forms: [n] on [i i i]; b[n] on {a:i b:[i i s]}; [n][m] on [[i i][s]]; $.b[n].a; [*][n]; ..[n]; [n] on an "
    "object; [n] on []. Document leaves and set values symbolic as in C18.path.history. Stub: (jp.Nth).Append is replaced by a function "
    "that writes \"[n]\" (the decimal text of an index only reaches condition messages and printed representations; formatting a symbolic "
    "integer forks per digit count). opaque_int_text for the same reason.")

# ---- text ----
def rt_cases(salts):
    out = []
    for d in range(NWD):
        for s in salts:
            for o in range(56):
                k = (d * 31 + s) * 56 + o
                opts = o if (o >> 3) < 6 else (o & 7) | (6 << 3)
                out.append([d, (d + o + s) % NWS, k % 2, (k // 2) % 5, opts, (k // 3) % 2])
    return out

rt_q = rt_cases([0])
rt_t = rt_cases(range(0, NWS, 2))
jp_q = [[c, (c + 5 * sep + strict) % NWS, strict, sep, (c + strict + sep) % 2]
        for c in range(NCOMBO) for strict in range(3) for sep in range(4)]
jp_t = [[c, s, strict, sep, inp] for c in range(NCOMBO) for s in range(0, NWS, 3) for strict in range(3) for sep in range(4) for inp in range(2)]

rt_note = (
    "text0 -> bag1 -> text1 -> bag2 -> text2: a document (26 shapes of depth <= 5 over all scalar kinds: integers incl. 2^53+1, "
    "9223372036854775799, -9223372036854775807, floats 2.5 / -1.25e-7, null, true, false, 33 strings incl. empty, blanks, escaped quote/"
    "backslash/newline/tab/CR, control characters, non-ASCII (2..4 byte UTF-8, combining), strings that look like numbers/keywords/"
    "punctuation; keys that need quoting; empty containers) is written by the harness's own serializer (JSON, or a loose SEN form without "
    "commas and with bare keys), parsed by the real functions ((make-bag text), (bag-parse (make-bag nil) text), (make-instance "
    "'bag-flavor :parse text), (json-parse fn text t), (json-parse fn text)), compared with the reference tree, written with bag-write / "
    "(send bag :write) under the option grid :pretty t/nil x :json t/nil x :right-margin default/20 x :depth 0,1,2,3,4,9,absent, parsed "
    "again (SEN parser; JSON output by the strict JSON parser), compared with the reference tree again, and written once more (same text). "
    "pkg/bag (make-bag.go, parse.go, json-parse.go, write.go, flavor.go) and the ojg parsers/writers (sen, oj, pretty, ojg.AppendJSONString "
    "...) are executed by the engine from SSA. HONEST BOUND: all text is concrete (case parameters select shape, leaf tables, options); this "
    "obligation is a bounded enumeration executed by the engine with native replay of witnesses, not a proof over symbolic text. Floats are "
    "concrete in the engine anyway. Quick: 26 shapes x 56 option points (leaf table rotation, input style, parse function, call style "
    "rotate with the index); thorough: x 15 leaf rotations. Known-finding regions (19 digit integers from 9223372036854775800, whole "
    "floats, strings true/false/null and strings/keys beginning with - or + under SEN output) are assumed away and probed by "
    "C18.text.findings.")

jp_note = (
    "(json-parse fn text [strict]) with 1..4 documents in one text (12 combinations, separators blank / newline / nothing / mixed, string "
    "or octets input, SEN parser on loose SEN text, SEN parser on JSON text, strict JSON parser) and a function receiver (lambda) that "
    "KEEPS every bag it is given. After json-parse returned, the receiver must have been called once per document, and each kept bag "
    "must still hold its own document (Go data compared with the reference tree) and write/parse as it. Text concrete, produced by the "
    "harness's serializer: bounded enumeration executed by the engine (pkg/bag/json-parse.go and the ojg sen/oj parsers run from SSA).")

ae_q = [[b, (b + d) % 5, d, (b + d) % NWS] for b in range(16) for d in (0, 2, 4, 15)]
ae_t = [[b, h, d, (b + d + h) % NWS] for b in range(16) for h in range(5) for d in range(0, NWD, 2)]
ae_note = (
    "History over the parser: a malformed text (16 texts: unclosed, extra close, missing colon, bad number, stray + ...) is given to "
    "make-bag / bag-parse / (make-instance 'bag-flavor :parse) / json-parse (SEN or strict): a condition must be raised, not a Go run-time "
    "fault; then three well formed documents are parsed with the same family of functions and must give their own content (compared with "
    "the reference tree). The ojg parsers are taken from a sync.Pool; for C18 the engine models the pool as a stack (Get returns the "
    "object of the last Put, engine/x_c18.go), which is what the Go runtime does for one goroutine, so state a parser keeps after an "
    "error is visible. Text concrete (bounded enumeration executed by the engine).")

tf_note = (
    "Same entry as C18.text.roundtrip; a few cases inside each known-finding region of the text round trip (probed by ./check).")

new = [
    {"id": "C18.path.history", "property": "C18", "pkg": "pkg/bag", "entry": "VerifC18PathHistory",
     "cases": {"quick": singles_q + pairs_q + triples_q, "thorough": singles_t + pairs_t + triples_t},
     "reach": ["compared"], "carves": [], "note": hist_note},
    {"id": "C18.path.findings", "property": "C18", "pkg": "pkg/bag", "entry": "VerifC18PathHistory",
     "cases": {"quick": [[3, 0, 0, -1, -1], [3, 0, NP + 15, -1, -1], [14, 0, 28, -1, -1], [0, 0, 10, 3, -1], [9, 0, 2 * NP + 21, -1, -1]],
               "thorough": [[3, 0, 0, -1, -1], [3, 0, NP + 15, -1, -1], [14, 0, 28, -1, -1], [0, 0, 10, 3, -1], [9, 0, 2 * NP + 21, -1, -1]]},
     "reach": [], "carves": ["C18-set-misfit-path-silently-ignored", "C18-remove-slice-end-inclusive",
                             "C18-set-wildcard-index-short-array-partial", "C18-set-multi-match-shares-one-value", "C18-modify-root-scalar-ignored"], "note": findings_note},
    {"id": "C18.path.index", "property": "C18", "pkg": "pkg/bag", "entry": "VerifC18PathIndex",
     "cases": {"quick": [[f, o, (f + o) % 2] for f in range(8) for o in range(3)],
               "thorough": [[f, o, v] for f in range(8) for o in range(3) for v in range(2)]},
     "reach": ["compared"], "carves": [], "opaque_int_text": True,
     "overrides": {"(github.com/ohler55/ojg/jp.Nth).Append": "github.com/ohler55/slip/pkg/bag.zzC18PStubNthAppend"},
     "note": index_note},
    {"id": "C18.text.roundtrip", "property": "C18", "pkg": "pkg/bag", "entry": "VerifC18ParseWrite",
     "cases": {"quick": rt_q, "thorough": rt_t}, "reach": ["compared"], "carves": [], "note": rt_note},
    {"id": "C18.text.jsonparse", "property": "C18", "pkg": "pkg/bag", "entry": "VerifC18JSONParseKeep",
     "cases": {"quick": jp_q, "thorough": jp_t}, "reach": ["compared"], "carves": [], "note": jp_note},
    {"id": "C18.text.aftererror", "property": "C18", "pkg": "pkg/bag", "entry": "VerifC18ParseAfterError",
     "cases": {"quick": ae_q, "thorough": ae_t}, "reach": ["compared"], "carves": [], "note": ae_note},
    {"id": "C18.text.aftererror.findings", "property": "C18", "pkg": "pkg/bag", "entry": "VerifC18ParseAfterError",
     "cases": {"quick": [[10, 0, 15, 0]], "thorough": [[10, 0, 15, 0], [11, 1, 1, 0]]}, "reach": [],
     "carves": ["C18-parse-error-with-plus-poisons-parser"],
     "note": "Same entry as C18.text.aftererror, inside the known-finding region (the malformed text has a + pending)."},
    {"id": "C18.text.findings", "property": "C18", "pkg": "pkg/bag", "entry": "VerifC18ParseWrite",
     "cases": {"quick": [[21, 0, 0, 0, 0, 0], [23, 0, 0, 0, 0, 0], [15, 4, 0, 0, 0, 0], [25, 0, 0, 0, 0, 0]],
               "thorough": [[21, 0, 0, 0, 0, 0], [22, 0, 1, 1, 9, 1], [23, 0, 0, 0, 0, 0], [15, 4, 0, 0, 0, 0], [25, 0, 0, 0, 0, 0]]},
     "reach": [], "carves": ["C18-int-near-int64-limit-becomes-json-number", "C18-whole-float-written-as-integer",
                             "C18-sen-write-keyword-strings-unquoted", "C18-sen-write-sign-strings-unquoted"], "note": tf_note},
]
json.dump(old + new, open(SPEC, "w"), indent=1)
for o in new:
    print(o["id"], {t: len(c) for t, c in o["cases"].items()})
