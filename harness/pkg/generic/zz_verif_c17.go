package generic

import (
	"sync"

	"github.com/ohler55/slip"
	vrt "github.com/ohler55/slip/zzvrt"
)

// ---- C17 (i): lock discipline of a generic function's method table and cache ----

func zzC17Eval(scope *slip.Scope, src string) (res slip.Object) {
	defer func() { _ = recover() }()
	return slip.ReadString(src, scope).Eval(scope, nil)
}

var zzC17GenOps = []string{
	"(zzc17g 1)",                                   // call, cache miss, fixnum
	"(zzc17g 'a)",                                  // call, symbol
	"(progn (zzc17g 1) (zzc17g 1))",                // miss then hit
	"(defmethod zzc17g ((x fixnum)) (list 'fix x))", // add/replace a method
	"(defmethod zzc17g :before ((x real)) nil)",
	"(progn (zzc17g 1) (defmethod zzc17g ((x integer)) (list 'int x)) (zzc17g 1))",
	"(progn (zzc17g 1) (remove-method (function zzc17g) (find-method (function zzc17g) '() '(real))) (zzc17g 1))",
}

// VerifC17Generic: every access to Aux.methods / Aux.cache made by a call, a
// defmethod or a remove-method happens with the generic's mutex held.
func VerifC17Generic(op int) {
	scope := slip.NewScope()
	zzC17Eval(scope, "(defgeneric zzc17g (x))")
	zzC17Eval(scope, "(defmethod zzc17g ((x real)) (list 'real x))")
	zzC17Eval(scope, "(defmethod zzc17g ((x t)) (list 't x))")
	fi := slip.FindFunc("zzc17g")
	aux, _ := fi.Aux.(*Aux)
	if aux == nil {
		vrt.Unsupported("generic aux not found")
		return
	}
	vrt.Carve("C17-find-method-unlocked", op == 6)
	if vrt.Symbolic() {
		vrt.Guard(aux.methods, &aux.moo, "Aux.methods")
		vrt.Guard(aux.cache, &aux.moo, "Aux.cache")
		held := vrt.HeldLocks()
		zzC17Eval(scope, zzC17GenOps[op])
		if op >= 3 {
			// the cache map is replaced by defmethod/remove-method: guard the new one too and call again
			vrt.Guard(aux.cache, &aux.moo, "Aux.cache")
			zzC17Eval(scope, "(zzc17g 2)")
		}
		vrt.Reach("ran")
		vrt.Assert(vrt.GuardViolations() == 0, "generic method table or cache accessed without the generic's mutex")
		vrt.Assert(vrt.HeldLocks() == held, "the generic's mutex is still held after the operation")
		return
	}
	var wg sync.WaitGroup
	for g := 0; g < 2; g++ {
		wg.Add(1)
		go func() {
			defer wg.Done()
			s := slip.NewScope()
			for i := 0; i < 100; i++ {
				zzC17Eval(s, zzC17GenOps[op])
				zzC17Eval(s, zzC17GenOps[3])
				zzC17Eval(s, "(zzc17g 2)")
			}
		}()
	}
	wg.Wait()
}
