package generic

import (
	"strconv"

	"github.com/ohler55/slip"
	vrt "github.com/ohler55/slip/zzvrt"
)

// ---- C10: generic dispatch equals the specification, cache independent ----
//
// Methods are defined through the real defmethod / remove-method / find-method (forms evaluated in
// a scope) or Aux.AddMethod. A method body records a marker in a Go-side trace (zzc10-mark) and,
// for :around methods, asks a harness bit whether to continue with call-next-method (zzc10-cont).
// The oracle (zzC10RefDispatch) is a cache-free dispatcher working from the harness' own table of
// defined slots and a fixed table of the CL class precedence of the argument classes used; it
// shares nothing with pkg/generic.

const (
	zzC10Primary = 0
	zzC10Before  = 1
	zzC10After   = 2
	zzC10Around  = 3

	zzC10Leave = 1000 // marker offset: leaving an :around after call-next-method returned
	zzC10NmpT  = 2000 // marker offset: next-method-p answered true
	zzC10NmpF  = 3000 // marker offset: next-method-p answered nil
	zzC10MaxID = 256
)

// The specializer classes come from the CL chain fixnum < integer < rational < real < number < t
// (CLHS 4.2.2, 12.1.1); a harness parameter selects how many of them are used.
var zzC10Chain = []string{"fixnum", "integer", "rational", "real", "number", "t"}

func zzC10Select(nspec int) []int {
	switch nspec {
	case 1:
		return []int{5}
	case 2:
		return []int{0, 5}
	case 3:
		return []int{0, 3, 5}
	case 4:
		return []int{0, 1, 3, 5}
	case 5:
		return []int{0, 1, 2, 3, 5}
	}
	return []int{0, 1, 2, 3, 4, 5}
}

// Argument classes: 0 fixnum (symbolic value), 1 bignum, 2 ratio, 3 symbol, 4 nil. The position
// in the chain of the most specific chain class the argument is an instance of:
// a bignum is an integer, a ratio a rational, a symbol and nil (for slip) only t.
var zzC10ArgPos = []int{0, 1, 2, 5, 5}

const zzC10NArg = 5

// zzC10First: index (into the selected specializers) of the first class the argument belongs to.
func zzC10First(sel []int, argClass int) int {
	for i, c := range sel {
		if zzC10ArgPos[argClass] <= c {
			return i
		}
	}
	return len(sel) - 1
}

type zzC10State struct {
	trace []int
	cont  [zzC10MaxID]bool // per marker id: does the :around (or, mode bit 2, the primary) continue with call-next-method
	used  [zzC10MaxID]bool // per marker id: a primary continues at most once per call (zzc10-once)
}

var zzC10St *zzC10State

type zzC10Mark struct{ slip.Function }

func (f *zzC10Mark) Call(s *slip.Scope, args slip.List, depth int) slip.Object {
	id, _ := args[0].(slip.Fixnum)
	zzC10St.trace = append(zzC10St.trace, int(id))
	return slip.Symbol("zzjunk")
}

type zzC10Cont struct{ slip.Function }

func (f *zzC10Cont) Call(s *slip.Scope, args slip.List, depth int) slip.Object {
	id, _ := args[0].(slip.Fixnum)
	if zzC10St.cont[int(id)] {
		return slip.True
	}
	return nil
}

// zzc10-once id: like zzc10-cont but true at most once per call (a primary that calls
// call-next-method; slip re-enters the same primary, which must not recurse for ever).
type zzC10Once struct{ slip.Function }

func (f *zzC10Once) Call(s *slip.Scope, args slip.List, depth int) slip.Object {
	id, _ := args[0].(slip.Fixnum)
	if zzC10St.used[int(id)] {
		return nil
	}
	zzC10St.used[int(id)] = true
	if zzC10St.cont[int(id)] {
		return slip.True
	}
	return nil
}

// zzc10-nmp id v: records what next-method-p answered inside :around id.
type zzC10Nmp struct{ slip.Function }

func (f *zzC10Nmp) Call(s *slip.Scope, args slip.List, depth int) slip.Object {
	id, _ := args[0].(slip.Fixnum)
	if args[1] != nil {
		zzC10St.trace = append(zzC10St.trace, zzC10NmpT+int(id))
	} else {
		zzC10St.trace = append(zzC10St.trace, zzC10NmpF+int(id))
	}
	return nil
}

// zzc10-val id x: the value a primary (or a non-continuing :around) returns.
type zzC10Val struct{ slip.Function }

func zzC10ValOf(id int, x slip.Object) int64 {
	if fx, ok := x.(slip.Fixnum); ok {
		return int64(id)*1000 + int64(fx)
	}
	return int64(id)*1000 + 7
}

func (f *zzC10Val) Call(s *slip.Scope, args slip.List, depth int) slip.Object {
	id, _ := args[0].(slip.Fixnum)
	return slip.Fixnum(zzC10ValOf(int(id), args[1]))
}

// zzc10-leave id r: marks the exit of an :around and wraps the inner result.
type zzC10LeaveF struct{ slip.Function }

func (f *zzC10LeaveF) Call(s *slip.Scope, args slip.List, depth int) slip.Object {
	id, _ := args[0].(slip.Fixnum)
	zzC10St.trace = append(zzC10St.trace, zzC10Leave+int(id))
	r, ok := args[1].(slip.Fixnum)
	if !ok {
		return slip.Symbol("zzbad-inner")
	}
	return slip.Fixnum(2*int64(r) + int64(id))
}

// The helper functions and the (empty) generic functions are created at package initialisation:
// slip.Define costs ~130k interpreted instructions, and the engine restores the heap to the
// post-init state for every path, so each path still starts from generics without methods
// (natively every replay is a fresh process).
var (
	zzC10Aux1 *Aux
	zzC10Aux2 *Aux
)

const (
	zzC10G1 = "zzc10g"
	zzC10G2 = "zzc10h"
)

func init() {
	slip.Define(func(args slip.List) slip.Object {
		f := zzC10Mark{Function: slip.Function{Name: "zzc10-mark", Args: args}}
		f.Self = &f
		return &f
	}, &slip.FuncDoc{Name: "zzc10-mark", Args: []*slip.DocArg{{Name: "id", Type: "fixnum"}}, Return: "object"})
	slip.Define(func(args slip.List) slip.Object {
		f := zzC10Cont{Function: slip.Function{Name: "zzc10-cont", Args: args}}
		f.Self = &f
		return &f
	}, &slip.FuncDoc{Name: "zzc10-cont", Args: []*slip.DocArg{{Name: "id", Type: "fixnum"}}, Return: "object"})
	slip.Define(func(args slip.List) slip.Object {
		f := zzC10Once{Function: slip.Function{Name: "zzc10-once", Args: args}}
		f.Self = &f
		return &f
	}, &slip.FuncDoc{Name: "zzc10-once", Args: []*slip.DocArg{{Name: "id", Type: "fixnum"}}, Return: "object"})
	slip.Define(func(args slip.List) slip.Object {
		f := zzC10Nmp{Function: slip.Function{Name: "zzc10-nmp", Args: args}}
		f.Self = &f
		return &f
	}, &slip.FuncDoc{Name: "zzc10-nmp", Args: []*slip.DocArg{{Name: "id", Type: "fixnum"}, {Name: "v", Type: "object"}}, Return: "object"})
	slip.Define(func(args slip.List) slip.Object {
		f := zzC10Val{Function: slip.Function{Name: "zzc10-val", Args: args}}
		f.Self = &f
		return &f
	}, &slip.FuncDoc{Name: "zzc10-val", Args: []*slip.DocArg{{Name: "id", Type: "fixnum"}, {Name: "x", Type: "object"}}, Return: "object"})
	slip.Define(func(args slip.List) slip.Object {
		f := zzC10LeaveF{Function: slip.Function{Name: "zzc10-leave", Args: args}}
		f.Self = &f
		return &f
	}, &slip.FuncDoc{Name: "zzc10-leave", Args: []*slip.DocArg{{Name: "id", Type: "fixnum"}, {Name: "r", Type: "object"}}, Return: "object"})
	s := slip.NewScope()
	zzC10Aux1 = newGfAux(s, slip.Symbol(zzC10G1), slip.List{slip.Symbol("x")}, 0)
	zzC10Aux2 = newGfAux(s, slip.Symbol(zzC10G2), slip.List{slip.Symbol("x"), slip.Symbol("y")}, 0)
}

func zzC10Call(fn string, args ...slip.Object) slip.List {
	l := slip.List{slip.Symbol(fn)}
	return append(l, args...)
}

func zzC10Quote(o slip.Object) slip.Object {
	return slip.List{slip.Symbol("quote"), o}
}

var zzC10QualNames = []string{"", ":before", ":after", ":around"}

// zzC10Gen describes one generic function under test: its name, arity and specializer classes.
// A "key" is a specializer tuple: for arity 1 key = class index, for arity 2 key = i*n+j.
// A "slot" is key*4+qualifier.
type zzC10Gen struct {
	name  string
	aux   *Aux
	arity int
	sel   []int // selected chain classes
	mode  int   // bit 0: (call-next-method x..) with explicit arguments; bit 1: :around asks next-method-p first; bit 2: primaries may continue with call-next-method
	cls   *zzC10Classes
}

// zzC10Classes: user-defined classes instead of the built-in chain (one-argument generic only).
// names: specializer classes (key = index); prec[a]: for argument class a the applicable keys in
// class precedence order; argNames[a]: the name of the argument's class (the cache key).
type zzC10Classes struct {
	names    []string
	prec     [][]int
	argNames []string
	args     []slip.Object
}

func (g *zzC10Gen) nkeys() int {
	if g.cls != nil {
		return len(g.cls.names)
	}
	if g.arity == 1 {
		return len(g.sel)
	}
	return len(g.sel) * len(g.sel)
}

// specOf: the chain class name of argument position pos of a key. The reader yields slip.True
// for t, so that is what a specialized lambda list written as ((x t)) contains.
func (g *zzC10Gen) specName(key, pos int) string {
	if g.cls != nil {
		return g.cls.names[key]
	}
	n := len(g.sel)
	if g.arity == 1 {
		return zzC10Chain[g.sel[key]]
	}
	if pos == 0 {
		return zzC10Chain[g.sel[key/n]]
	}
	return zzC10Chain[g.sel[key%n]]
}

func (g *zzC10Gen) specObj(key, pos int) slip.Object {
	nm := g.specName(key, pos)
	if nm == "t" {
		return slip.True
	}
	return slip.Symbol(nm)
}

func (g *zzC10Gen) methKey(key int) string {
	k := g.specName(key, 0)
	if g.arity == 2 {
		k += "|" + g.specName(key, 1)
	}
	return k
}

var zzC10VarNames = []string{"x", "y"}

// body forms of the method with marker id and the given qualifier
func (g *zzC10Gen) body(qual, id int) slip.List {
	fid := slip.Fixnum(id)
	forms := slip.List{zzC10Call("zzc10-mark", fid)}
	switch qual {
	case zzC10Primary:
		if g.mode&4 != 0 {
			cnm := zzC10Call("call-next-method")
			for p := 0; p < g.arity; p++ {
				cnm = append(cnm, slip.Symbol(zzC10VarNames[p]))
			}
			forms = append(forms, slip.List{slip.Symbol("if"), zzC10Call("zzc10-once", fid),
				zzC10Call("zzc10-leave", fid, cnm),
				zzC10Call("zzc10-val", fid, slip.Symbol("x"))})
		} else {
			forms = append(forms, zzC10Call("zzc10-val", fid, slip.Symbol("x")))
		}
	case zzC10Around:
		if g.mode&2 != 0 {
			forms = append(forms, zzC10Call("zzc10-nmp", fid, zzC10Call("next-method-p")))
		}
		cnm := zzC10Call("call-next-method")
		if g.mode&1 != 0 {
			for p := 0; p < g.arity; p++ {
				cnm = append(cnm, slip.Symbol(zzC10VarNames[p]))
			}
		}
		forms = append(forms, slip.List{slip.Symbol("if"), zzC10Call("zzc10-cont", fid),
			zzC10Call("zzc10-leave", fid, cnm),
			zzC10Call("zzc10-val", fid, slip.Symbol("x"))})
	}
	return forms
}

// defmethodForm builds (defmethod g [qual] ((x c1) [(y c2)]) body...).
func (g *zzC10Gen) defmethodForm(slot, id int) slip.List {
	key, qual := slot/4, slot%4
	form := slip.List{slip.Symbol("defmethod"), slip.Symbol(g.name)}
	if qual != zzC10Primary {
		form = append(form, slip.Symbol(zzC10QualNames[qual]))
	}
	ll := slip.List{}
	for p := 0; p < g.arity; p++ {
		ll = append(ll, slip.List{slip.Symbol(zzC10VarNames[p]), g.specObj(key, p)})
	}
	form = append(form, ll)
	return append(form, g.body(qual, id)...)
}

// removeForm builds (remove-method 'g (find-method 'g '(qual) '(c1 [c2]))).
func (g *zzC10Gen) removeForm(slot int) slip.List {
	key, qual := slot/4, slot%4
	var quals slip.Object
	if qual != zzC10Primary {
		quals = slip.List{slip.Symbol(zzC10QualNames[qual])}
	}
	specs := slip.List{}
	for p := 0; p < g.arity; p++ {
		specs = append(specs, g.specObj(key, p))
	}
	gq := zzC10Quote(slip.Symbol(g.name))
	return zzC10Call("remove-method", gq, zzC10Call("find-method", gq, zzC10Quote(quals), zzC10Quote(specs)))
}

// zzC10Table is the harness' own record of which slots have a method and which marker each runs.
type zzC10Table struct {
	has []bool
	ids []int
}

func zzC10NewTable(nkeys int) *zzC10Table {
	return &zzC10Table{has: make([]bool, nkeys*4), ids: make([]int, nkeys*4)}
}

func (g *zzC10Gen) define(scope *slip.Scope, t *zzC10Table, slot, id int) {
	scope.Eval(g.defmethodForm(slot, id), 0)
	t.has[slot] = true
	t.ids[slot] = id
}

func (g *zzC10Gen) remove(scope *slip.Scope, t *zzC10Table, slot int) {
	scope.Eval(g.removeForm(slot), 0)
	t.has[slot] = false
}

// replaceKey uses the Go API Aux.AddMethod: everything under the key is replaced by one primary.
func (g *zzC10Gen) replaceKey(scope *slip.Scope, t *zzC10Table, key, id int) {
	ll := slip.List{}
	fd := &slip.FuncDoc{Name: g.name, Kind: slip.MethodSymbol, Return: "object"}
	for p := 0; p < g.arity; p++ {
		ll = append(ll, slip.Symbol(zzC10VarNames[p]))
		fd.Args = append(fd.Args, &slip.DocArg{Name: zzC10VarNames[p], Type: g.specName(key, p)})
	}
	lam, _ := scope.Eval(append(slip.List{slip.Symbol("lambda"), ll}, g.body(zzC10Primary, id)...), 0).(*slip.Lambda)
	g.aux.AddMethod(g.methKey(key), &slip.Method{Name: g.name, Doc: fd, Combinations: []*slip.Combination{{Primary: lam}}})
	for q := 0; q < 4; q++ {
		t.has[key*4+q] = false
	}
	t.has[key*4+zzC10Primary] = true
	t.ids[key*4+zzC10Primary] = id
}

// outcome of one generic function call
type zzC10Out struct {
	class int // 0 value, 1 no-applicable-method-error, 2 other condition, 3 Go run-time fault, 4 other panic
	val   int64
	isFix bool
	fault string
}

func zzC10Classify(rec any) (int, string) {
	switch tr := rec.(type) {
	case interface{ RuntimeError() }:
		return 3, tr.(error).Error()
	case *slip.Panic:
		if tr.Condition != nil && 0 < len(tr.Condition.Hierarchy()) &&
			string(tr.Condition.Hierarchy()[0]) == "no-applicable-method-error" {
			return 1, ""
		}
		return 2, ""
	case slip.Object:
		if 0 < len(tr.Hierarchy()) && string(tr.Hierarchy()[0]) == "no-applicable-method-error" {
			return 1, ""
		}
		return 2, ""
	default:
		return 4, ""
	}
}

func zzC10Invoke(scope *slip.Scope, g string, args []slip.Object) (out zzC10Out) {
	defer func() {
		if rec := recover(); rec != nil {
			out.class, out.fault = zzC10Classify(rec)
		}
	}()
	form := slip.List{slip.Symbol(g)}
	for _, a := range args {
		form = append(form, zzC10Quote(a))
	}
	res := scope.Eval(form, 0)
	if fx, ok := res.(slip.Fixnum); ok {
		out.isFix = true
		out.val = int64(fx)
	}
	return
}

// zzC10Arg gives the argument object for an argument class.
func zzC10Arg(class int, x int64) slip.Object {
	switch class {
	case 0:
		return slip.Fixnum(x)
	case 1:
		return slip.NewBignum(5)
	case 2:
		return slip.NewRatio(1, 2)
	case 3:
		return slip.Symbol("zzsym")
	}
	return nil
}

// the cache key slip is documented to use: the class name of each required argument joined by '|'
var zzC10ArgClassName = []string{"fixnum", "bignum", "ratio", "symbol", "t"}

// ---- the reference dispatcher (Appendix F of the design) ----

// order: the applicable keys, most specific first (lexicographic over the argument positions).
func (g *zzC10Gen) order(argClasses []int) []int {
	if g.cls != nil {
		return g.cls.prec[argClasses[0]]
	}
	n := len(g.sel)
	var ord []int
	if g.arity == 1 {
		for i := zzC10First(g.sel, argClasses[0]); i < n; i++ {
			ord = append(ord, i)
		}
		return ord
	}
	for i := zzC10First(g.sel, argClasses[0]); i < n; i++ {
		for j := zzC10First(g.sel, argClasses[1]); j < n; j++ {
			ord = append(ord, i*n+j)
		}
	}
	return ord
}

type zzC10Ref struct {
	trace []int
	class int
	val   int64
}

func zzC10RefDispatch(t *zzC10Table, ord []int, nmp, primNext bool, x slip.Object, cont *[zzC10MaxID]bool) (r zzC10Ref) {
	prim := -1
	for _, k := range ord {
		if t.has[k*4+zzC10Primary] {
			prim = k
			break
		}
	}
	if prim < 0 {
		r.class = 1
		return
	}
	var entered []int
	stopped := false
	for _, k := range ord {
		if stopped {
			break
		}
		if t.has[k*4+zzC10Around] {
			id := t.ids[k*4+zzC10Around]
			r.trace = append(r.trace, id)
			if nmp {
				r.trace = append(r.trace, zzC10NmpT+id) // a primary exists, so there is a next method
			}
			if cont[id] {
				entered = append(entered, id)
			} else {
				r.val = zzC10ValOf(id, x)
				stopped = true
			}
		}
	}
	if !stopped {
		for _, k := range ord {
			if t.has[k*4+zzC10Before] {
				r.trace = append(r.trace, t.ids[k*4+zzC10Before])
			}
		}
		// the primaries, most specific first; each may hand over to the next one
		var pentered []int
		pdone := false
		for _, k := range ord {
			if pdone {
				break
			}
			if t.has[k*4+zzC10Primary] {
				id := t.ids[k*4+zzC10Primary]
				r.trace = append(r.trace, id)
				if primNext && cont[id] {
					pentered = append(pentered, id)
				} else {
					r.val = zzC10ValOf(id, x)
					pdone = true
				}
			}
		}
		if !pdone {
			r.class = 2 // the last primary called call-next-method: no-next-method
			return
		}
		for i := len(pentered) - 1; 0 <= i; i-- {
			r.trace = append(r.trace, zzC10Leave+pentered[i])
			r.val = 2*r.val + int64(pentered[i])
		}
		for i := len(ord) - 1; 0 <= i; i-- {
			if t.has[ord[i]*4+zzC10After] {
				r.trace = append(r.trace, t.ids[ord[i]*4+zzC10After])
			}
		}
	}
	for i := len(entered) - 1; 0 <= i; i-- {
		r.trace = append(r.trace, zzC10Leave+entered[i])
		r.val = 2*r.val + int64(entered[i])
	}
	return
}

func zzC10SameTrace(a, b []int) bool {
	if len(a) != len(b) {
		return false
	}
	for i := range a {
		if a[i] != b[i] {
			return false
		}
	}
	return true
}

func zzC10TraceNote(tag string, tr []int) {
	s := "["
	for i, v := range tr {
		if 0 < i {
			s += ","
		}
		s += strconv.Itoa(v)
	}
	s += "]"
	vrt.Note(tag, s)
}

// zzC10Regions: the known-finding regions of one call.
//
//	possSkip:  a primary and at least two :around methods are applicable (the defect shows iff the
//	           first of them continues: firstAround is its marker id)
//	noPrimary: an :around method is applicable but no primary (open finding
//	           C10-no-primary-around-runs: the :around is entered instead of no-applicable-method)
//	daemonsOnly: only :before/:after methods are applicable (the former part of the region
//	           C10-no-primary-runs-daemons repaired by slip commit 61b7d1b: asserted like any call)
//	possPrimNext: the most specific primary (marker firstPrim) has a next primary or runs under an
//	           :around (the defect C10-primary-call-next-method, fixed by slip commit b77e05f, showed
//	           iff it calls call-next-method; the vrt.Carve of a fixed finding is a no-op)
type zzC10Reg struct {
	possSkip     bool
	firstAround  int
	noPrimary    bool
	daemonsOnly  bool
	possPrimNext bool
	firstPrim    int
}

func zzC10Regions(t *zzC10Table, ord []int) (r zzC10Reg) {
	nAround := 0
	nPrim := 0
	anyOther := false
	r.firstAround = -1
	r.firstPrim = -1
	for _, k := range ord {
		if t.has[k*4+zzC10Around] {
			if nAround == 0 {
				r.firstAround = t.ids[k*4+zzC10Around]
			}
			nAround++
			anyOther = true
		}
		if t.has[k*4+zzC10Before] || t.has[k*4+zzC10After] {
			anyOther = true
		}
		if t.has[k*4+zzC10Primary] {
			if nPrim == 0 {
				r.firstPrim = t.ids[k*4+zzC10Primary]
			}
			nPrim++
		}
	}
	r.noPrimary = nPrim == 0 && 1 <= nAround
	r.daemonsOnly = nPrim == 0 && nAround == 0 && anyOther
	r.possSkip = 0 < nPrim && 2 <= nAround
	r.possPrimNext = 2 <= nPrim || (1 <= nPrim && 1 <= nAround)
	return
}

// dirty: can the call be inside an open known-finding region that depends on symbolic bits. (The
// around-skipped region was fixed in slip commit 0ee40b9: such calls now run in the common
// sequence, last, still announcing the region with vrt.Carve - a no-op for a fixed finding.)
func (g *zzC10Gen) dirty(r zzC10Reg) bool {
	return g.mode&4 != 0 && r.possPrimNext
}

const (
	zzC10CarveSkip  = "C10-around-skipped"
	zzC10CarveDaemo = "C10-no-primary-runs-daemons" // fixed (61b7d1b) for calls without an applicable :around
	zzC10CarveNoPri = "C10-no-primary-around-runs"  // what remains: no primary but an :around
	zzC10CarvePrim  = "C10-primary-call-next-method"
)

// zzC10CheckCall performs one call and compares it with the reference dispatcher.
//
//	carve 0: the caller guarantees the call is outside both regions;
//	carve 1: vrt.Carve both regions (a path inside a region ends here in the main run);
//	carve 2: inside a region the call is made (it fills the cache) but not compared.
func (g *zzC10Gen) checkCall(scope *slip.Scope, t *zzC10Table, argClasses []int, xname string, carve int) {
	ord := g.order(argClasses)
	reg := zzC10Regions(t, ord)
	nop := reg.noPrimary
	refHasPrimary := false
	for _, k := range ord {
		refHasPrimary = refHasPrimary || t.has[k*4+zzC10Primary]
	}
	// The fixnum argument is symbolic when the reference predicts a value; when it predicts
	// no-applicable-method (or, with mode bit 2, possibly no-next-method) the value could only
	// reach the condition's message text (printing a symbolic integer forks per digit).
	var x int64 = 3
	if argClasses[0] == 0 && refHasPrimary && xname != "" && g.cls == nil && g.mode&4 == 0 {
		x = vrt.Int64(xname)
		vrt.Assume(uint64(x+(1<<40)) < 1<<41) // |x| < 2^40 as one comparison (no fork)
	}
	args := make([]slip.Object, g.arity)
	for p := range args {
		if g.cls != nil {
			args[p] = g.cls.args[argClasses[p]]
		} else {
			args[p] = zzC10Arg(argClasses[p], x)
		}
	}
	inSkip := false
	if reg.possSkip {
		inSkip = zzC10St.cont[reg.firstAround]
	}
	inPrim := false
	if g.mode&4 != 0 && reg.possPrimNext {
		inPrim = zzC10St.cont[reg.firstPrim]
	}
	switch carve {
	case 1:
		vrt.Carve(zzC10CarveSkip, inSkip)
		vrt.Carve(zzC10CarveDaemo, reg.daemonsOnly)
		vrt.Carve(zzC10CarveNoPri, nop)
		vrt.Carve(zzC10CarvePrim, inPrim)
	case 2:
		if nop { // the around-skipped (0ee40b9) and primary-call-next-method (b77e05f) regions are fixed: compared again
			zzC10St.trace = nil
			zzC10St.used = [zzC10MaxID]bool{}
			zzC10Invoke(scope, g.name, args)
			return
		}
	}
	zzC10St.trace = nil
	zzC10St.used = [zzC10MaxID]bool{}
	out := zzC10Invoke(scope, g.name, args)
	ref := zzC10RefDispatch(t, ord, g.mode&2 != 0, g.mode&4 != 0, args[0], &zzC10St.cont)
	zzC10TraceNote("trace", zzC10St.trace)
	vrt.Reach("compared")
	vrt.Assert(out.class != 3, "Go run-time fault in a generic function call")
	vrt.Assert(out.class == ref.class, "outcome class (value / no-applicable-method) differs from the reference dispatcher")
	vrt.Assert(zzC10SameTrace(zzC10St.trace, ref.trace), "methods run differ from the reference dispatcher")
	if ref.class == 0 {
		vrt.Assert(out.isFix && out.val == ref.val, "returned value differs from the reference dispatcher")
	}
}

// ---- the cache invariant, checked on the real maps ----

// zzC10CheckInv: (a) aux.methods agrees with the table; (b) every cache entry is what a fresh
// collection from aux.methods gives for its key, and its key belongs to a call made since the
// last change of the table; (c) the fast path (defaultCaller) is only set when the one and only
// method is the unqualified primary on (t ... t), and then it is that method's function.
func (g *zzC10Gen) checkInv(t *zzC10Table, called [][]int, cacheMustBeEmpty bool) {
	aux := g.aux
	nk := g.nkeys()
	nslots := 0
	for key := 0; key < nk; key++ {
		m := aux.methods[g.methKey(key)]
		var c *slip.Combination
		if m != nil && 0 < len(m.Combinations) {
			c = m.Combinations[0]
		}
		for q := 0; q < 4; q++ {
			if t.has[key*4+q] {
				nslots++
			}
		}
		vrt.Assert((c != nil && c.Primary != nil) == t.has[key*4+zzC10Primary], "method table: primary slot differs from the definitions made")
		vrt.Assert((c != nil && c.Before != nil) == t.has[key*4+zzC10Before], "method table: :before slot differs from the definitions made")
		vrt.Assert((c != nil && c.After != nil) == t.has[key*4+zzC10After], "method table: :after slot differs from the definitions made")
		vrt.Assert((c != nil && c.Wrap != nil) == t.has[key*4+zzC10Around], "method table: :around slot differs from the definitions made")
	}
	if cacheMustBeEmpty {
		vrt.Assert(len(aux.cache) == 0, "cache not emptied by a change of the method table")
	}
	nfound := 0
	for _, ac := range called {
		ck := zzC10ArgClassName[ac[0]]
		if g.cls != nil {
			ck = g.cls.argNames[ac[0]]
		}
		if g.arity == 2 {
			ck += "|" + zzC10ArgClassName[ac[1]]
		}
		cm := aux.cache[ck]
		if cm == nil {
			continue
		}
		nfound++
		var want []*slip.Combination
		for _, k := range g.order(ac) {
			if m := aux.methods[g.methKey(k)]; m != nil && 0 < len(m.Combinations) {
				want = append(want, m.Combinations[0])
			}
		}
		same := len(want) == len(cm.Combinations)
		for i := 0; same && i < len(want); i++ {
			same = want[i] == cm.Combinations[i]
		}
		vrt.Assert(same, "cache entry differs from a fresh collection of the applicable methods")
	}
	// distinct argument class tuples in called give distinct keys; no other keys may exist
	vrt.Assert(len(aux.cache) <= zzC10Distinct(called), "cache holds a key no call since the last change produced")
	if aux.defaultCaller != nil {
		tk := nk - 1 // (t ... t) is the last key
		ok := nslots == 1 && t.has[tk*4+zzC10Primary]
		if ok {
			m := aux.methods[g.methKey(tk)]
			ok = m != nil && len(m.Combinations) == 1 && m.Combinations[0].Primary == aux.defaultCaller
		}
		vrt.Assert(ok, "fast path set although the table is not exactly one primary on t")
	}
}

func zzC10Distinct(called [][]int) int {
	n := 0
	for i, a := range called {
		dup := false
		for j := 0; j < i; j++ {
			if len(called[j]) == len(a) {
				eq := true
				for k := range a {
					eq = eq && called[j][k] == a[k]
				}
				dup = dup || eq
			}
		}
		if !dup {
			n++
		}
	}
	return n
}

// ---- table construction shared by the entries ----

// build defines the methods of the initial table: a slot whose bit is set in `sym` is present iff
// a symbolic bool says so (bounded-exhaustive through the solver), any other slot iff its bit is
// set in `fixed`. Every :around method gets a symbolic continue bit.
func (g *zzC10Gen) build(scope *slip.Scope, fixed, sym int) *zzC10Table {
	t := zzC10NewTable(g.nkeys())
	for slot := 0; slot < g.nkeys()*4; slot++ {
		present := false
		if sym>>uint(slot)&1 == 1 {
			if vrt.Bool("has" + strconv.Itoa(slot)) {
				present = true
			}
		} else {
			present = fixed>>uint(slot)&1 == 1
		}
		if present {
			g.define(scope, t, slot, slot)
			if slot%4 == zzC10Around || (g.mode&4 != 0 && slot%4 == zzC10Primary) {
				zzC10St.cont[slot] = vrt.Bool("cont" + strconv.Itoa(slot))
			}
		}
	}
	return t
}

// argument classes selected by a mask (bit i = class i)
func zzC10ArgList(mask int) []int {
	var l []int
	for i := 0; i < zzC10NArg; i++ {
		if mask>>uint(i)&1 == 1 {
			l = append(l, i)
		}
	}
	return l
}

// VerifC10Dispatch: obligation (i) dispatch = specification, one-argument generic.
//
//	nspec: number of specializer classes (chain selection, the last is t)
//	fixed, sym: the initial table (see build): bit slot = class index*4 + qualifier
//	mode:  bit 0 explicit arguments to call-next-method, bit 1 next-method-p asked in :around
//	rot:   rotation of the order in which the argument classes are called
//
// All calls outside the two known-finding regions are made one after the other on the same generic
// (so later ones run with a cache filled by earlier ones); every call that can be inside a region
// gets a path of its own (choice "sel") with the regions carved.
func VerifC10Dispatch(nspec, fixed, sym, mode, rot int) {
	zzC10St = &zzC10State{}
	scope := slip.NewScope()
	g := &zzC10Gen{name: zzC10G1, aux: zzC10Aux1, arity: 1, sel: zzC10Select(nspec), mode: mode}
	t := g.build(scope, fixed, sym)
	var clean, late, dirty, nopri [][]int
	for i := 0; i < zzC10NArg; i++ {
		ac := []int{(i + rot) % zzC10NArg}
		reg := zzC10Regions(t, g.order(ac))
		switch {
		case reg.noPrimary:
			nopri = append(nopri, ac)
		case g.dirty(reg):
			dirty = append(dirty, ac)
		case reg.possSkip:
			late = append(late, ac)
		default:
			clean = append(clean, ac)
		}
	}
	g.runCalls(scope, t, append(clean, late...), dirty, nopri)
}

// runCalls: choice "sel": 0 = all clean calls in sequence; k = the k-th call that may be inside an
// open region depending on symbolic bits, alone, carved; last = the calls without applicable primary (entirely
// inside that region: the main run stops at the first carve, the probe run checks it).
func (g *zzC10Gen) runCalls(scope *slip.Scope, t *zzC10Table, clean, dirty, nopri [][]int) {
	n := 1 + len(dirty)
	if 0 < len(nopri) {
		n++
	}
	sel := vrt.Choice("sel", n)
	switch {
	case sel == 0:
		var called [][]int
		for _, ac := range clean {
			g.checkCall(scope, t, ac, "x", 1)
			called = append(called, ac)
			g.checkInv(t, called, false)
		}
		vrt.Reach("clean-calls")
	case sel <= len(dirty):
		g.checkCall(scope, t, dirty[sel-1], "x", 1)
		g.checkInv(t, [][]int{dirty[sel-1]}, false)
	default:
		g.checkCall(scope, t, nopri[0], "x", 1)
	}
}

// VerifC10Two: obligation (iii) two-argument generic, n classes per argument; key = i*n+j, slot =
// key*4+qualifier. Argument classes per position come from argMask; all pairs are called.
func VerifC10Two(nspec, fixed, sym, mode, argMask, rot int) {
	zzC10St = &zzC10State{}
	scope := slip.NewScope()
	g := &zzC10Gen{name: zzC10G2, aux: zzC10Aux2, arity: 2, sel: zzC10Select(nspec), mode: mode}
	t := g.build(scope, fixed, sym)
	al := zzC10ArgList(argMask)
	var clean, late, dirty, nopri [][]int
	np := len(al) * len(al)
	for i := 0; i < np; i++ {
		k := (i + rot) % np
		ac := []int{al[k/len(al)], al[k%len(al)]}
		reg := zzC10Regions(t, g.order(ac))
		switch {
		case reg.noPrimary:
			nopri = append(nopri, ac)
		case g.dirty(reg):
			dirty = append(dirty, ac)
		case reg.possSkip:
			late = append(late, ac)
		default:
			clean = append(clean, ac)
		}
	}
	g.runCalls(scope, t, append(clean, late...), dirty, nopri)
}

// zzC10Mutate applies one change of the method table. op 0: defmethod (adds or replaces the slot,
// the new method has marker id); op 1: remove-method of the slot's method (caller guarantees it is
// present); op 2: Aux.AddMethod replacing everything under the slot's key by one primary.
func (g *zzC10Gen) mutate(scope *slip.Scope, t *zzC10Table, op, slot, id int, cname string) {
	switch op {
	case 0:
		g.define(scope, t, slot, id)
		if slot%4 == zzC10Around {
			zzC10St.cont[id] = vrt.Bool(cname)
		}
	case 1:
		g.remove(scope, t, slot)
	case 2:
		g.replaceKey(scope, t, slot/4, id)
	}
}

// VerifC10Coherence: obligation (ii): call c1; change slot; call c2 — from an arbitrary initial
// table, with the cache invariant checked on the real maps after every step. The first call only
// fills the cache: it is compared with the reference unless it lies inside a known-finding region.
func VerifC10Coherence(arity, nspec, fixed, sym, mode, argMask, op, slot int) {
	zzC10St = &zzC10State{}
	scope := slip.NewScope()
	g := &zzC10Gen{name: zzC10G1, aux: zzC10Aux1, arity: arity, sel: zzC10Select(nspec), mode: mode}
	if arity == 2 {
		g.name, g.aux = zzC10G2, zzC10Aux2
	}
	t := g.build(scope, fixed, sym)
	if op == 1 && !t.has[slot] {
		return // nothing to remove
	}
	al := zzC10ArgList(argMask)
	pick := func(name string) []int {
		ac := []int{al[vrt.Choice(name+"a", len(al))]}
		if arity == 2 {
			ac = append(ac, al[vrt.Choice(name+"b", len(al))])
		}
		return ac
	}
	g.checkInv(t, nil, true)
	c1 := pick("c1")
	g.checkCall(scope, t, c1, "x1", 2)
	g.checkInv(t, [][]int{c1}, false)
	g.mutate(scope, t, op, slot, slot+64, "contnew")
	g.checkInv(t, nil, true)
	c2 := pick("c2")
	g.checkCall(scope, t, c2, "x2", 1)
	g.checkInv(t, [][]int{c2}, false)
	vrt.Reach("triple")
}

// VerifC10History: histories of `steps` operations chosen among every defmethod (add/replace),
// every remove-method of a present method and every call, then a final call; one-argument generic.
// Calls inside a known-finding region are made but not compared, except that the final call carves.
// op0 >= 0 fixes the first operation (index into defs, removes, calls) so that a bound is split
// into cases; op0 < 0 leaves it to the choice.
func VerifC10History(nspec, fixed, mode, argMask, steps, op0 int) {
	zzC10St = &zzC10State{}
	scope := slip.NewScope()
	g := &zzC10Gen{name: zzC10G1, aux: zzC10Aux1, arity: 1, sel: zzC10Select(nspec), mode: mode}
	t := g.build(scope, fixed, 0)
	al := zzC10ArgList(argMask)
	nslots := g.nkeys() * 4
	var called [][]int
	for st := 0; st < steps; st++ {
		var present []int
		for s := 0; s < nslots; s++ {
			if t.has[s] {
				present = append(present, s)
			}
		}
		sn := strconv.Itoa(st)
		nops := nslots + len(present) + len(al)
		var k int
		if st == 0 && 0 <= op0 {
			if nops <= op0 {
				return
			}
			k = op0
		} else {
			k = vrt.Choice("op"+sn, nops)
		}
		switch {
		case k < nslots:
			g.mutate(scope, t, 0, k, k+nslots*(st+1), "hcont"+sn)
			called = nil
			g.checkInv(t, nil, true)
		case k < nslots+len(present):
			g.mutate(scope, t, 1, present[k-nslots], 0, "")
			called = nil
			g.checkInv(t, nil, true)
		default:
			ac := []int{al[k-nslots-len(present)]}
			g.checkCall(scope, t, ac, "x"+sn, 2)
			called = append(called, ac)
			g.checkInv(t, called, false)
		}
	}
	ac := []int{al[vrt.Choice("final", len(al))]}
	g.checkCall(scope, t, ac, "xf", 1)
	called = append(called, ac)
	g.checkInv(t, called, false)
	vrt.Reach("history")
}

// zzC10StubMethodAppend replaces (*slip.Method).Append in the engine (spec "overrides"): the real one
// prints the method's address (uintptr(unsafe.Pointer(m))), which the engine cannot model. It is
// only reached when the no-next-method condition formats its message.
func zzC10StubMethodAppend(m *slip.Method, b []byte) []byte {
	b = append(b, "#<method "...)
	b = append(b, m.Name...)
	return append(b, '>')
}

// VerifC10Classes: dispatch on instances of user-defined (defclass) classes with multiple
// inheritance: zd (zb zc), zb (za), zc (za), za; specializers {zd, zb, zc, za, standard-object, t};
// arguments: an instance of each class and a fixnum. The class precedence lists are written down
// from the CLOS rule (CLHS 4.3.5): zd zb zc za standard-object t, etc.
func VerifC10Classes(fixed, sym, mode, rot int) {
	zzC10St = &zzC10State{}
	scope := slip.NewScope()
	def := func(name string, supers ...string) {
		sl := slip.List{}
		for _, s := range supers {
			sl = append(sl, slip.Symbol(s))
		}
		scope.Eval(slip.List{slip.Symbol("defclass"), slip.Symbol(name), sl, slip.List{}}, 0)
	}
	def("zzc10a")
	def("zzc10b", "zzc10a")
	def("zzc10c", "zzc10a")
	def("zzc10d", "zzc10b", "zzc10c")
	cls := &zzC10Classes{
		names:    []string{"zzc10d", "zzc10b", "zzc10c", "zzc10a", "standard-object", "t"},
		prec:     [][]int{{0, 1, 2, 3, 4, 5}, {1, 3, 4, 5}, {2, 3, 4, 5}, {3, 4, 5}, {5}},
		argNames: []string{"zzc10d", "zzc10b", "zzc10c", "zzc10a", "fixnum"},
	}
	for i := 0; i < 4; i++ {
		cls.args = append(cls.args, scope.Eval(zzC10Call("make-instance", zzC10Quote(slip.Symbol(cls.names[i]))), 0))
	}
	cls.args = append(cls.args, slip.Fixnum(11))
	g := &zzC10Gen{name: zzC10G1, aux: zzC10Aux1, arity: 1, mode: mode, cls: cls}
	t := g.build(scope, fixed, sym)
	var clean, late, dirty, nopri [][]int
	for i := 0; i < len(cls.args); i++ {
		ac := []int{(i + rot) % len(cls.args)}
		reg := zzC10Regions(t, g.order(ac))
		switch {
		case reg.noPrimary:
			nopri = append(nopri, ac)
		case g.dirty(reg):
			dirty = append(dirty, ac)
		case reg.possSkip:
			late = append(late, ac)
		default:
			clean = append(clean, ac)
		}
	}
	g.runCalls(scope, t, append(clean, late...), dirty, nopri)
}

// VerifC10Fastpath: histories over the restricted alphabet {define/redefine the primary on all-t,
// define the primary on the all-fixnum key, define :before on all-t, remove-method of each present
// one, call with fixnum(s), call with symbol(s)} starting from the method-less generic (arity 1 or
// 2, two classes {fixnum, t} per argument). The first operation is a define (op0 picks which, so a
// bound is split into three cases; a call or remove on the empty generic changes nothing), the last
// one a call; op1 >= 0 fixes the second operation. Every call is compared with the reference over
// the table at that moment (a call without applicable primary is made, not compared: known
// finding), and after every step the invariant is checked on the real Aux: methods = definitions,
// cache empty after a change and coherent otherwise, defaultCaller set only when the table is
// exactly one primary on all-t and equal to that method's function. Everything of lengths 1..steps
// is covered because the checks run after every step.
func VerifC10Fastpath(arity, steps, op0, op1 int) {
	zzC10St = &zzC10State{}
	scope := slip.NewScope()
	g := &zzC10Gen{name: zzC10G1, aux: zzC10Aux1, arity: arity, sel: zzC10Select(2), mode: 1}
	if arity == 2 {
		g.name, g.aux = zzC10G2, zzC10Aux2
	}
	t := zzC10NewTable(g.nkeys())
	tk := g.nkeys() - 1
	slots := []int{tk*4 + zzC10Primary, 0*4 + zzC10Primary, tk*4 + zzC10Before}
	calls := [][]int{{0}, {3}}
	if arity == 2 {
		calls = [][]int{{0, 0}, {3, 3}}
	}
	nslots := g.nkeys() * 4
	var called [][]int
	g.checkInv(t, nil, true)
	for st := 0; st < steps; st++ {
		var present []int
		for _, s := range slots {
			if t.has[s] {
				present = append(present, s)
			}
		}
		sn := strconv.Itoa(st)
		nops := len(slots) + len(present) + len(calls)
		var k int
		switch {
		case st == 0:
			k = op0
		case st == 1 && 0 <= op1:
			if nops <= op1 {
				return
			}
			k = op1
		case st == steps-1:
			k = len(slots) + len(present) + vrt.Choice("op"+sn, len(calls))
		default:
			k = vrt.Choice("op"+sn, nops)
		}
		switch {
		case k < len(slots):
			g.mutate(scope, t, 0, slots[k], slots[k]+nslots*(st+1), "")
			called = nil
			g.checkInv(t, nil, true)
		case k < len(slots)+len(present):
			g.mutate(scope, t, 1, present[k-len(slots)], 0, "")
			called = nil
			g.checkInv(t, nil, true)
		default:
			ac := calls[k-len(slots)-len(present)]
			g.checkCall(scope, t, ac, "", 2)
			called = append(called, ac)
			g.checkInv(t, called, false)
		}
	}
	vrt.Reach("fastpath-history")
}
