package generic

import (
	"github.com/ohler55/slip"
	vrt "github.com/ohler55/slip/zzvrt"
)

// ---- C06: the slice idiom inside the runtime itself: insertMethod ----
//
// insertMethod(class, super, method, combo) inserts combo into class's list of method
// combinations with append(append(s[:pos], combo), s[pos:]...). The oracle does not compute a
// position: whatever the position, the new list must be the old sequence (kept as a snapshot of
// pointers) with combo inserted exactly once, nothing lost, nothing duplicated.

// zzC06Class is a class with just what insertMethod looks at.
type zzC06Class struct {
	slip.Class // nil: anything else is not used by insertMethod
	inh        []slip.Class
	mm         map[string]*slip.Method
}

func (c *zzC06Class) InheritsList() []slip.Class         { return c.inh }
func (c *zzC06Class) Methods() map[string]*slip.Method   { return c.mm }
func (c *zzC06Class) GetMethod(name string) *slip.Method { return c.mm[name] }

// VerifC06InsertMethod: the class has n combinations in a slice with `spare` unused capacity.
// own=1: the first one is the class's own. The next q come from the first q inherited classes
// (in order); the remaining ones come from classes that are not in the inherits list (as the
// vanilla combinations of a CLOS class are), so the insertion position is own+q.
func VerifC06InsertMethod(n, spare, own int) {
	if own > n {
		return
	}
	q := vrt.Choice("q", n-own+1)
	class := &zzC06Class{mm: map[string]*slip.Method{}}
	super := &zzC06Class{}
	combos := make([]*slip.Combination, n, n+spare)
	snap := make([]*slip.Combination, n)
	for i := 0; i < n; i++ {
		var from slip.Class
		switch {
		case i < own:
			from = class
		case i < own+q:
			f := &zzC06Class{}
			class.inh = append(class.inh, f)
			from = f
		default:
			from = &zzC06Class{} // not inherited by name (vanilla)
		}
		combos[i] = &slip.Combination{From: from}
		snap[i] = combos[i]
	}
	class.inh = append(class.inh, super)
	class.mm[":m"] = &slip.Method{Name: ":m", Combinations: combos}
	nc := &slip.Combination{From: super}
	method := &slip.Method{Name: ":m", Combinations: []*slip.Combination{nc}}

	insertMethod(class, super, method, nc)

	res := class.mm[":m"].Combinations
	vrt.Reach("inserted")
	vrt.Note("shape", n, spare, own, q, len(res), cap(res))
	vrt.Assert(len(res) == n+1, "the combination list did not grow by exactly one")
	// region predicate of the known defect: any insertion before the end (s[:pos] keeps the capacity of s)
	vrt.Carve("C06-insertmethod-aliasing-append", own+q < n)
	at := -1
	for i := 0; i < len(res); i++ {
		if res[i] == nc && at < 0 {
			at = i
		}
	}
	vrt.Assert(at >= 0, "the new combination is not in the list")
	j := 0
	for i := 0; i < len(res); i++ {
		if i == at {
			continue
		}
		vrt.Assert(j < n && res[i] == snap[j], "an existing combination was lost, duplicated or reordered")
		j++
	}
	vrt.Assert(j == n, "an existing combination was lost")
}
