package gi

// C02 extension (package gi): gi:read-each and gi:read-push on a stream that
// delivers its bytes in pieces give the objects of the whole text, in order.

import (
	"io"

	"github.com/ohler55/slip"
	vrt "github.com/ohler55/slip/zzvrt"
)

const zzC02GiAlpha = "()\"\\|#',; a1"

type zzC02GiChunk struct {
	src []byte
	pos int
	k   int
}

func (r *zzC02GiChunk) Read(p []byte) (int, error) {
	if len(r.src) <= r.pos {
		return 0, io.EOF
	}
	n := r.k
	if len(p) < n {
		n = len(p)
	}
	if len(r.src)-r.pos < n {
		n = len(r.src) - r.pos
	}
	for i := 0; i < n; i++ {
		p[i] = r.src[r.pos+i]
	}
	r.pos += n
	return n, nil
}

func zzC02GiSrc(n int) []byte {
	src := vrt.Bytes("src", n)
	for _, c := range src {
		ok := false
		for i := 0; i < len(zzC02GiAlpha); i++ {
			if c == zzC02GiAlpha[i] {
				ok = true
			}
		}
		vrt.Assume(ok)
	}
	return src
}

// 0 value, 1 Lisp condition or partial, 2 anything else
func zzC02GiClass(rec any) int {
	switch rec.(type) {
	case *slip.PartialPanic, *slip.Panic, slip.Instance:
		return 1
	}
	return 2
}

func zzC02GiReadAll(src []byte, scope *slip.Scope) (code slip.Code, class int) {
	defer func() {
		if rec := recover(); rec != nil {
			code = nil
			class = zzC02GiClass(rec)
		}
	}()
	return slip.ReadString(string(src), scope), 0
}

func zzC02GiEval(scope *slip.Scope, form slip.Object) (class int) {
	defer func() {
		if rec := recover(); rec != nil {
			class = zzC02GiClass(rec)
		}
	}()
	scope.Eval(form, 0)
	return 0
}

func zzC02GiSame(a, b slip.Object) bool {
	switch ta := a.(type) {
	case nil:
		return b == nil
	case slip.Symbol:
		tb, ok := b.(slip.Symbol)
		return ok && string(ta) == string(tb)
	case slip.String:
		tb, ok := b.(slip.String)
		return ok && string(ta) == string(tb)
	case slip.Character:
		tb, ok := b.(slip.Character)
		return ok && ta == tb
	case slip.List:
		tb, ok := b.(slip.List)
		if !ok || len(ta) != len(tb) {
			return false
		}
		for i := range ta {
			if !zzC02GiSame(ta[i], tb[i]) {
				return false
			}
		}
		return true
	case slip.Tail:
		tb, ok := b.(slip.Tail)
		return ok && zzC02GiSame(ta.Value, tb.Value)
	case *slip.Vector:
		tb, ok := b.(*slip.Vector)
		return ok && zzC02GiSame(ta.AsList(), tb.AsList())
	case slip.Funky:
		tb, ok := b.(slip.Funky)
		if !ok || ta.GetName() != tb.GetName() {
			return false
		}
		return zzC02GiSame(ta.GetArgs(), tb.GetArgs())
	}
	if b == nil {
		return false
	}
	if a.Hierarchy()[0] != b.Hierarchy()[0] {
		return false
	}
	return a.Equal(b)
}

// zzC02GiCollect is the function given to read-each: it collects its argument.
type zzC02GiCollect struct {
	slip.Function
	got slip.Code
}

func (c *zzC02GiCollect) Call(s *slip.Scope, args slip.List, depth int) slip.Object {
	c.got = append(c.got, args[0])
	return nil
}

// VerifC02GiReadEach: (gi:read-each stream function) over a stream that hands
// out at most k bytes per Read calls the function with the objects of the whole
// text, in order; a text the whole read rejects is not accepted.
// VerifC02GiReadPush (push != 0): (gi:read-push stream channel) with a channel
// whose buffer never fills.
func VerifC02GiRead(n int, k int, push int) {
	src := zzC02GiSrc(n)
	scope := slip.NewScope()
	whole, wclass := zzC02GiReadAll(src, scope)
	scope.Let(slip.Symbol("zzs"), slip.NewInputStream(&zzC02GiChunk{src: src, k: k}))
	var got slip.Code
	var class int
	if push != 0 {
		ch := make(Channel, 2*n+2)
		scope.Let(slip.Symbol("zzc"), ch)
		class = zzC02GiEval(scope, slip.List{slip.Symbol("read-push"), slip.Symbol("zzs"), slip.Symbol("zzc")})
		for 0 < len(ch) {
			got = append(got, <-ch)
		}
	} else {
		col := &zzC02GiCollect{Function: slip.Function{Name: "zz-collect"}}
		col.Self = col
		scope.Let(slip.Symbol("zzf"), col)
		class = zzC02GiEval(scope, slip.List{slip.Symbol("read-each"), slip.Symbol("zzs"), slip.Symbol("zzf")})
		got = col.got
	}
	vrt.Reach("compared")
	vrt.Assert(class != 2, "Go panic instead of a Lisp condition")
	if wclass != 0 {
		vrt.Assert(class != 0, "a text the whole read rejects is accepted")
		return
	}
	vrt.Assert(class == 0, "a text the whole read accepts is rejected")
	same := len(got) == len(whole)
	if same {
		for i := range whole {
			if !zzC02GiSame(got[i], whole[i]) {
				same = false
			}
		}
	}
	vrt.Assert(same, "the objects delivered differ from the whole read")
}
