package gi

import (
	"bytes"
	"os/user"

	"github.com/ohler55/slip"
	vrt "github.com/ohler55/slip/zzvrt"
)

// zzC19Mentions: does the form contain (make-instance 'name ...) / (make-instance (quote name)) anywhere?
func zzC19Mentions(f slip.Object, name string) bool {
	l, ok := f.(slip.List)
	if !ok {
		return false
	}
	if 1 < len(l) && l[0] == slip.Symbol("make-instance") {
		if q, isQ := l[1].(slip.List); isQ && len(q) == 2 && q[0] == slip.Symbol("quote") && q[1] == slip.Symbol(name) {
			return true
		}
		if l[1] == slip.Symbol(name) {
			return true
		}
	}
	for _, e := range l {
		if zzC19Mentions(e, name) {
			return true
		}
	}
	return false
}

// VerifC19SnapshotOrder: the snapshot is a program that is loaded from top to
// bottom into a fresh session: every form that rebuilds an instance of a flavor
// or class ((make-instance 'f ...) inside the value of a variable) comes AFTER
// the form that defines f, and every definition the session holds is written.
//
//	kind 0: flavor instance in a variable  1: flavor instance inside a list  2: instance of a flavor that inherits from another
//	kind 3: standard-object of a defclass in a variable
func VerifC19SnapshotOrder(kind int) {
	z := vrt.Int("z") // a path input so that the witness is recorded
	vrt.Assume(z == 0)
	scope := slip.NewScope()
	var src string
	names := []string{"zzc19so"}
	switch kind {
	case 0:
		src = `(defflavor zzc19so ((x 3)) () :gettable-instance-variables :settable-instance-variables)
		       (defvar zzc19so-v (make-instance 'zzc19so))`
	case 1:
		src = `(defflavor zzc19so ((x 3)) () :gettable-instance-variables)
		       (defvar zzc19so-v (list 1 (make-instance 'zzc19so) 2))`
	case 2:
		names = []string{"zzc19so-base", "zzc19so"}
		src = `(defflavor zzc19so-base ((x 3)) () :gettable-instance-variables)
		       (defflavor zzc19so ((y 4)) (zzc19so-base) :gettable-instance-variables)
		       (defvar zzc19so-v (make-instance 'zzc19so))`
	default:
		src = `(defclass zzc19so () ((x :initform 3 :initarg :x)))
		       (defvar zzc19so-v (make-instance 'zzc19so))`
	}
	mk := zzC19Run(func() slip.Object { return slip.ReadString(src, scope).Eval(scope, nil) })
	vrt.Assert(mk.class == 0, "the session itself does not evaluate")
	var text []byte
	sn := zzC19Run(func() slip.Object { text = AppendSnapshot(nil, scope); return nil })
	vrt.Assert(sn.class != 3, "Go run-time fault in AppendSnapshot")
	vrt.Assert(sn.class == 0, "AppendSnapshot signals")
	var code slip.Code
	rd := zzC19Run(func() slip.Object { code = slip.Read(text, scope); return nil })
	vrt.Assert(rd.class == 0, "the snapshot text cannot be read")
	vrt.Reach("snapshot")
	if zzC19Debug {
		for _, line := range bytes.Split(text, []byte{10}) {
			if bytes.Contains(line, []byte("zzc19so")) {
				vrt.Note("line", string(line))
			}
		}
	}
	defAt := map[string]int{}
	useAt := -1
	for i, f0 := range code {
		f := zzC19Sexp(f0)
		l, ok := f.(slip.List)
		if !ok || len(l) < 2 {
			continue
		}
		if l[0] == slip.Symbol("defflavor") || l[0] == slip.Symbol("defclass") {
			if n, isSym := l[1].(slip.Symbol); isSym {
				if _, seen := defAt[string(n)]; !seen {
					defAt[string(n)] = i
				}
			}
		}
		if useAt < 0 && zzC19Mentions(f, "zzc19so") {
			useAt = i
		}
	}
	// known finding: the snapshot has no section for CLOS classes (nor generic functions)
	vrt.Carve("C19-snapshot-omits-clos-classes", kind == 3)
	for _, n := range names {
		_, has := defAt[n]
		vrt.Assert(has, "the snapshot does not define a flavor/class of the session")
	}
	vrt.Assert(0 <= useAt, "the snapshot does not rebuild the instance held by a variable")
	vrt.Assert(defAt["zzc19so"] < useAt, "the snapshot rebuilds an instance before the form that defines its flavor/class")
	if kind == 2 {
		vrt.Assert(defAt["zzc19so-base"] < defAt["zzc19so"], "the snapshot defines a flavor before the flavor it inherits from")
	}
	// forget the session's definitions again (the registry is process wide)
	zzC19Run(func() slip.Object {
		return slip.ReadString("(makunbound 'zzc19so-v)", scope).Eval(scope, nil)
	})
}

// zzC19StubUserCurrent replaces os/user.Current in the engine (the snapshot
// header names the user; nothing of the property depends on it).
func zzC19StubUserCurrent() (*user.User, error) { return nil, nil }

// zzC19StubNilVar replaces the getters of *bag-time-format* and *bag-time-wrap*
// (they read the ojg option block, a native object in the engine): both are
// unset in a fresh session, which is what the stub answers.
func zzC19StubNilVar() slip.Object { return nil }

var zzC19Debug = false
