package gi

import (
	"github.com/ohler55/slip"
	vrt "github.com/ohler55/slip/zzvrt"
)

// VerifC17NilItems: nil is an item like any other: a producer pushes k items of
// which those selected by the bits of nilmask are nil (the others symbolic
// fixnums), closes the channel, and the consumer receives exactly the pushed
// sequence — through range (mode 0), channel-pop in a loop driven by the
// count (mode 1), or select (mode 2).  A nil item must not be taken for the
// end of the channel.
func VerifC17NilItems(capacity, k, nilmask, mode int) {
	scope := slip.NewScope()
	a := zzC17Bind(scope, "a", k)
	zzC17Deadlock(1)
	item := func(i int) string {
		if nilmask&(1<<i) != 0 {
			return "nil"
		}
		return zzC17Name("a", i)
	}
	pushes := zzC17Rep(k, func(i int) string { return "(channel-push c " + item(i) + ")" })
	var consume string
	switch mode {
	case 0:
		consume = "(range (lambda (x) (setq acc (cons (list x) acc))) c)"
	case 1:
		consume = zzC17Rep(k, func(i int) string { return "(setq acc (cons (list (channel-pop c)) acc))" })
	default:
		consume = zzC17Rep(k, func(i int) string { return "(select (c x (setq acc (cons (list x) acc))))" })
	}
	// the collecting variable lives in a scope of its own: gi:run evaluates the routine in the scope it
	// was started from, and writing that scope from both sides is the recorded finding
	// C17-run-shares-unlocked-scope, not this obligation's subject
	src := "(let ((c (make-channel " + string(rune('0'+capacity)) + ")))" +
		" (run (progn" + pushes + " (channel-close c)))" +
		" (let ((acc nil)) " + consume + " (reverse acc)))"
	out := zzC17Run(scope, src)
	vrt.Assert(out.class != 5, "deadlock: the program hangs (a producer stays blocked)")
	vrt.Assert(out.class == 0, "program signals")
	res, _ := out.val.(slip.List)
	vrt.Reach("received")
	vrt.Assert(len(res) == k, "the consumer did not receive every pushed item (a nil item taken for the end of the channel?)")
	for i := 0; i < k; i++ {
		cell, _ := res[i].(slip.List)
		vrt.Assert(len(cell) == 1, "result shape")
		if nilmask&(1<<i) != 0 {
			vrt.Assert(cell[0] == nil, "a nil item was not received as nil in its place")
		} else {
			zzC17Fix(cell[0], a[i], "items are not received in the order pushed")
		}
	}
	vrt.Note("nil-items", capacity, k, nilmask, mode)
}
