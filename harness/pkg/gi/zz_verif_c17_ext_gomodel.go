package gi

import (
	"sync"
	"time"

	vrt "github.com/ohler55/slip/zzvrt"
)

// VerifC17GoModel: differential check of the engine's task / channel / select /
// mutex / WaitGroup / virtual-time model against the Go runtime. Each program
// is plain Go with a schedule-independent outcome; the engine executes it in
// the cooperative model with a symbolic payload x, the assertions are decided
// by the solver, the outcome is written with vrt.Note, and the witness
// validation of ./check runs the same program natively on real goroutines and
// compares the notes.
func VerifC17GoModel(prog int, sched int) {
	x := int64(vrt.Int32("x"))
	zzC17Sched(sched)
	zzC17Deadlock(1)
	switch prog {
	case 0: // unbuffered ping-pong
		c, d := make(chan int64), make(chan int64)
		go func() {
			for v := range c {
				d <- v + 1
			}
			close(d)
		}()
		var got []int64
		for i := int64(0); i < 3; i++ {
			c <- x + 10*i
			got = append(got, <-d)
		}
		close(c)
		_, ok := <-d
		vrt.Assert(!ok, "closed channel: comma-ok must be false")
		vrt.Assert(len(got) == 3 && got[0] == x+1 && got[1] == x+11 && got[2] == x+21, "ping-pong values")
		vrt.Note("pingpong", got[0]-x, got[1]-x, got[2]-x, ok)
	case 1: // buffered producer, range, len/cap, comma-ok after close
		ch := make(chan int64, 2)
		ch <- x
		ch <- x + 1
		vrt.Assert(len(ch) == 2 && cap(ch) == 2, "len/cap of a full channel")
		<-ch
		<-ch
		go func() {
			for i := int64(0); i < 5; i++ {
				ch <- x + i
			}
			close(ch)
		}()
		var n, sum int64
		inOrder := true
		for v := range ch {
			if v != x+n {
				inOrder = false
			}
			n++
			sum += v - x
		}
		v, ok := <-ch
		vrt.Assert(inOrder && n == 5 && sum == 10, "range over a channel: order and count")
		vrt.Assert(v == 0 && !ok, "receive on a closed drained channel")
		vrt.Note("range", n, sum, inOrder, v, ok, len(ch), cap(ch))
	case 2: // select: default, ready receive, send with room, send on full
		a, b := make(chan int64, 1), make(chan int64, 1)
		r := int64(0)
		select {
		case v := <-a:
			r = v
		default:
			r = -1
		}
		vrt.Assert(r == -1, "select with default on empty channels takes default")
		a <- x
		select {
		case v := <-a:
			r = v
		case v := <-b:
			r = v + 1000
		default:
			r = -1
		}
		vrt.Assert(r == x, "select takes the only ready case")
		s := 0
		select {
		case b <- x + 5:
			s = 1
		default:
			s = 2
		}
		select {
		case b <- x + 6:
			s += 10
		default:
			s += 20
		}
		vrt.Assert(s == 21 && <-b == x+5, "select send: room, then full")
		a <- x
		b <- x
		which := 0
		select {
		case <-a:
			which = 1
		case <-b:
			which = 2
		}
		vrt.Assert(which == 1 || which == 2, "both ready: one of them")
		vrt.Assert(len(a)+len(b) == 1, "exactly one value taken")
		vrt.Note("select", r-x, s)
	case 3: // WaitGroup + Mutex
		var wg sync.WaitGroup
		var mu sync.Mutex
		var sum int64
		for i := int64(1); i <= 3; i++ {
			wg.Add(1)
			go func(k int64) {
				defer wg.Done()
				for j := 0; j < 2; j++ {
					mu.Lock()
					v := sum
					time.Sleep(time.Millisecond)
					sum = v + k*x
					mu.Unlock()
				}
			}(i)
		}
		wg.Wait()
		vrt.Assert(sum == 12*x, "mutex guarded sum of three workers")
		vrt.Assert(mu.TryLock(), "mutex free at the end")
		vrt.Note("waitgroup", sum == 12*x)
	case 4: // worker pool
		jobs, results := make(chan int64), make(chan int64, 4)
		var wg sync.WaitGroup
		for w := 0; w < 2; w++ {
			wg.Add(1)
			go func() {
				defer wg.Done()
				for j := range jobs {
					results <- j * 2
				}
			}()
		}
		for i := int64(0); i < 4; i++ {
			jobs <- x + i
		}
		close(jobs)
		wg.Wait()
		close(results)
		var sum, n int64
		for v := range results {
			sum += v
			n++
		}
		vrt.Assert(n == 4 && sum == 8*x+12, "worker pool: every job done exactly once")
		vrt.Note("pool", n, sum == 8*x+12)
	case 5: // close wakes every receiver; send on a closed channel panics in the sender
		done := make(chan struct{})
		out := make(chan int64, 3)
		for i := int64(1); i <= 2; i++ {
			go func(k int64) {
				<-done
				out <- k + x
			}(i)
		}
		go func() {
			defer func() {
				if r := recover(); r != nil {
					out <- 100 + x
				}
			}()
			<-done
			var closed chan int64 = make(chan int64, 1)
			close(closed)
			closed <- 1 // send on a closed channel panics in the sender
		}()
		time.Sleep(20 * time.Millisecond)
		close(done)
		s := <-out + <-out + <-out
		vrt.Assert(s == 103+3*x, "all receivers woken, send on a closed channel panicked")
		vrt.Note("close", s == 103+3*x)
	case 6: // virtual time: wake-up order follows the durations; time.After in select
		out := make(chan int64, 2)
		go func() { time.Sleep(300 * time.Millisecond); out <- 1 }()
		go func() { time.Sleep(20 * time.Millisecond); out <- 2 }()
		first, second := <-out, <-out
		never := make(chan int64)
		r := int64(0)
		select {
		case v := <-never:
			r = v
		case <-time.After(30 * time.Millisecond):
			r = x
		}
		vrt.Assert(first == 2 && second == 1, "the shorter sleep ends first")
		vrt.Assert(r == x, "time.After fires when nothing else is ready")
		vrt.Note("time", first, second, r == x)
	case 7: // RWMutex: a writer waits for the readers
		var rw sync.RWMutex
		var wg sync.WaitGroup
		val := x
		rw.RLock()
		wg.Add(1)
		go func() {
			defer wg.Done()
			rw.Lock()
			val = x + 7
			rw.Unlock()
		}()
		time.Sleep(10 * time.Millisecond)
		seen := val // the writer cannot have run: we hold the read lock
		rw.RUnlock()
		wg.Wait()
		vrt.Assert(seen == x && val == x+7, "writer excluded while a reader holds the lock")
		vrt.Note("rwmutex", seen == x, val == x+7)
	}
	vrt.Reach("ran")
}
