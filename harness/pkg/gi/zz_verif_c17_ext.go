package gi

import (
	"strconv"
	"strings"
	"time"

	"github.com/ohler55/slip"
	vrt "github.com/ohler55/slip/zzvrt"
)

// ---------------------------------------------------------------------------
// C17 (extension): the channel / routine / mutex primitives of pkg/gi executed
// in the engine's deterministic cooperative task model (engine/x_c17.go):
// `go` creates a task, a task runs until it blocks, then the next runnable task
// continues; all tasks blocked = deadlock.  ONE schedule per program is
// explored (plus a stated number of alternative scheduling decisions where an
// obligation asks for them with zzC17Sched); what is decided by the solver is
// the functional behaviour of the primitives for ALL payload values.  Freedom
// from data races under all schedules is the subject of the lockset
// obligations (C17.pkg, C17.generic, C17.sync).
//
// Native replay: the programs are real slip programs; natively they run on real
// goroutines.  They are written so that their result does not depend on the
// schedule (completion is awaited through channels), a watchdog turns a hang
// into a failed assertion, and only schedule-independent facts are asserted.
// ---------------------------------------------------------------------------

// Engine hooks (intercepted by name in the engine; natively no-ops).

// zzC17Sched allows up to budget alternative scheduling decisions per path.
func zzC17Sched(budget int) {}

// zzC17Deadlock says what a deadlock means for the obligation: 1 = it must not
// happen (violation), 2 = it is allowed (the path ends, reach tag "deadlock").
func zzC17Deadlock(mode int) {}

// zzC17Live is the number of tasks that have not ended (natively -1).
func zzC17Live() int { return -1 }

// zzC17Switches is the number of task switches so far (natively -1).
func zzC17Switches() int { return -1 }

type zzC17Out struct {
	val   slip.Object
	class int // 0 value, 1 lisp condition, 3 Go run-time fault, 4 other panic, 5 hang (native watchdog)
	msg   string
}

func zzC17Classify(rec any) (int, string) {
	switch tr := rec.(type) {
	case *slip.Panic:
		return 1, tr.Message
	case slip.Instance:
		return 1, ""
	case interface{ RuntimeError() }:
		return 3, tr.(error).Error()
	default:
		return 4, ""
	}
}

func zzC17Run1(scope *slip.Scope, src string) (out zzC17Out) {
	defer func() {
		if rec := recover(); rec != nil {
			out.class, out.msg = zzC17Classify(rec)
			out.val = nil
		}
	}()
	out.val = slip.ReadString(src, scope).Eval(scope, nil)
	return
}

// zzC17Run evaluates a program. Natively a watchdog reports a hang (class 5)
// instead of blocking the replay.
func zzC17Run(scope *slip.Scope, src string) zzC17Out {
	if vrt.Symbolic() {
		return zzC17Run1(scope, src)
	}
	done := make(chan zzC17Out, 1)
	go func() { done <- zzC17Run1(scope, src) }()
	select {
	case out := <-done:
		return out
	case <-time.After(zzC17Watchdog):
		return zzC17Out{class: 5, msg: "hang"}
	}
}

// zzC17Watchdog is the time after which the native replay takes a program for hung.
var zzC17Watchdog = 8 * time.Second

func zzC17Name(p string, i int) string { return p + strconv.Itoa(i) }

// zzC17Bind binds n symbolic fixnums (32-bit range) p0..p{n-1} in the scope.
func zzC17Bind(scope *slip.Scope, p string, n int) []int64 {
	vals := make([]int64, n)
	for i := 0; i < n; i++ {
		vals[i] = int64(vrt.Int32(zzC17Name(p, i)))
		scope.Let(slip.Symbol(zzC17Name(p, i)), slip.Fixnum(vals[i]))
	}
	return vals
}

func zzC17Rep(n int, f func(i int) string) string {
	var b strings.Builder
	for i := 0; i < n; i++ {
		b.WriteByte(' ')
		b.WriteString(f(i))
	}
	return b.String()
}

// zzC17Fix asserts that obj is the fixnum want.
func zzC17Fix(obj slip.Object, want int64, msg string) {
	f, ok := obj.(slip.Fixnum)
	vrt.Assert(ok, msg+" (not a fixnum)")
	vrt.Assert(int64(f) == want, msg)
}

// zzC17Queue is the reference model of a channel: a FIFO of values.
type zzC17Queue struct {
	items []int64
	head  int
}

func (q *zzC17Queue) push(v int64) { q.items = append(q.items, v) }
func (q *zzC17Queue) size() int    { return len(q.items) - q.head }
func (q *zzC17Queue) pop() int64 {
	v := q.items[q.head]
	q.head++
	return v
}

// VerifC17Fifo: k symbolic fixnums pushed by one routine are popped exactly
// once and in the order pushed.
//
//	mode 0: producer started by run, the main routine pops
//	mode 1: consumer started by run (it forwards what it pops to a result channel), main pushes
//	mode 2: producer -> forwarding routine (second channel of the same capacity) -> main
//	mode 3: two producers (k items each, value ranges disjoint) into one channel, main pops 2k: the items of
//	        each producer arrive in the order it pushed them, each exactly once
//	sched : number of alternative scheduling decisions explored
func VerifC17Fifo(capacity, k, mode, sched int) {
	if mode == 3 {
		zzC17TwoProducers(capacity, k, sched)
		return
	}
	scope := slip.NewScope()
	a := zzC17Bind(scope, "a", k)
	push := func(ch string) string {
		return zzC17Rep(k, func(i int) string { return "(channel-push " + ch + " " + zzC17Name("a", i) + ")" })
	}
	pops := func(ch string) string {
		return zzC17Rep(k, func(i int) string { return "(channel-pop " + ch + ")" })
	}
	cs := strconv.Itoa(capacity)
	var src string
	switch mode {
	case 0:
		src = "(let ((c (make-channel " + cs + ")))" +
			" (run (progn" + push("c") + " (channel-close c)))" +
			" (list" + pops("c") + " (channel-pop c) (length c)))"
	case 1:
		src = "(let ((c (make-channel " + cs + ")) (r (make-channel " + strconv.Itoa(k+1) + ")))" +
			" (run (progn" + zzC17Rep(k+1, func(i int) string { return "(channel-push r (channel-pop c))" }) + "))" +
			push("c") + " (channel-close c)" +
			" (list" + pops("r") + " (channel-pop r) (length c)))"
	default:
		src = "(let ((c (make-channel " + cs + ")) (d (make-channel " + cs + ")))" +
			" (run (progn" + push("c") + " (channel-close c)))" +
			" (run (progn" + zzC17Rep(k, func(i int) string { return "(channel-push d (channel-pop c))" }) + " (channel-close d)))" +
			" (list" + pops("d") + " (channel-pop d) (length d)))"
	}
	zzC17Sched(sched)
	zzC17Deadlock(1)
	out := zzC17Run(scope, src)
	if vrt.Symbolic() && out.class != 0 {
		vrt.Note("dbg", out.class, out.msg)
	}
	vrt.Assert(out.class != 5, "deadlock: the program hangs")
	vrt.Assert(out.class == 0, "producer/consumer program signals")
	// reference model
	var q zzC17Queue
	for i := 0; i < k; i++ {
		q.push(a[i])
	}
	res, ok := out.val.(slip.List)
	vrt.Assert(ok && len(res) == k+2, "result shape")
	vrt.Reach("popped")
	for i := 0; i < k; i++ {
		zzC17Fix(res[i], q.pop(), "item popped out of order, lost or duplicated")
	}
	vrt.Assert(q.size() == 0, "model drained")
	vrt.Assert(res[k] == nil, "pop on a closed and drained channel must return nil")
	zzC17Fix(res[k+1], 0, "channel-length of a drained channel")
	vrt.Note("fifo", k, capacity, mode)
}

func zzC17TwoProducers(capacity, k, sched int) {
	scope := slip.NewScope()
	a := zzC17Bind(scope, "a", k)
	b := zzC17Bind(scope, "b", k)
	const lim = int64(1) << 20
	for i := 0; i < k; i++ {
		vrt.Assume(a[i] >= 0 && a[i] < lim)
		vrt.Assume(b[i] >= lim && b[i] < 2*lim)
	}
	push := func(p string) string {
		return zzC17Rep(k, func(i int) string { return "(channel-push c " + zzC17Name(p, i) + ")" })
	}
	src := "(let ((c (make-channel " + strconv.Itoa(capacity) + ")))" +
		" (run (progn" + push("a") + "))" +
		" (run (progn" + push("b") + "))" +
		" (list" + zzC17Rep(2*k, func(i int) string { return "(channel-pop c)" }) + " (length c)))"
	zzC17Sched(sched)
	zzC17Deadlock(1)
	out := zzC17Run(scope, src)
	vrt.Assert(out.class != 5, "deadlock: the program hangs")
	vrt.Assert(out.class == 0, "producer/consumer program signals")
	res, ok := out.val.(slip.List)
	vrt.Assert(ok && len(res) == 2*k+1, "result shape")
	vrt.Reach("popped")
	ia, ib := 0, 0
	for i := 0; i < 2*k; i++ {
		f, isFix := res[i].(slip.Fixnum)
		vrt.Assert(isFix, "popped item is not a fixnum")
		if int64(f) < lim {
			vrt.Assert(ia < k, "more items from producer A than it pushed (duplicate)")
			vrt.Assert(int64(f) == a[ia], "items of producer A out of order or lost")
			ia++
		} else {
			vrt.Assert(ib < k, "more items from producer B than it pushed (duplicate)")
			vrt.Assert(int64(f) == b[ib], "items of producer B out of order or lost")
			ib++
		}
	}
	vrt.Assert(ia == k && ib == k, "every item exactly once")
	zzC17Fix(res[2*k], 0, "channel empty at the end")
	// the interleaving of the two producers is schedule dependent: not noted
	vrt.Note("fifo2", k, capacity)
}
