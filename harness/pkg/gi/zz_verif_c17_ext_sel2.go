package gi

import (
	"github.com/ohler55/slip"
	vrt "github.com/ohler55/slip/zzvrt"
)

// VerifC17SelectTwo: two routines started from the same scope both wait in a
// select on the same channel; the clause body reports the receipt (ack) and then
// blocks (gate) until every routine has received its item.  Each received item has to be forwarded exactly once:
// the clause variable belongs to the evaluation of the select, not to the
// scope the routines were started from.
//
//	variant 0: (run (select (ch item (channel-pop gate) (channel-push out item)))) twice
//	variant 1: three consumers, three items
//	variant 2: the select has a second clause on another channel that never becomes ready
//	variant 3: consumers inside a dotimes started from one let (one scope per iteration)
func VerifC17SelectTwo(variant int) {
	scope := slip.NewScope()
	n := 2
	if variant == 1 {
		n = 3
	}
	a := zzC17Bind(scope, "a", n)
	zzC17Deadlock(1)
	clause := "(ch item (channel-push ack 1) (channel-pop gate) (channel-push out item))"
	sel := "(select " + clause + ")"
	if variant == 2 {
		sel = "(select (never other (channel-push out other)) " + clause + ")"
	}
	consumer := "(run " + sel + ")"
	consumers := zzC17Rep(n, func(i int) string { return consumer })
	if variant == 3 {
		consumers = " (dotimes (i 2) " + consumer + ")"
	}
	src := "(let ((ch (make-channel 4)) (never (make-channel 1)) (gate (make-channel 0)) (ack (make-channel 4)) (out (make-channel 4)))" +
		consumers +
		zzC17Rep(n, func(i int) string { return "(channel-push ch " + zzC17Name("a", i) + ")" }) +
		zzC17Rep(n, func(i int) string { return "(channel-pop ack)" }) +
		zzC17Rep(n, func(i int) string { return "(channel-push gate 1)" }) +
		" (list" + zzC17Rep(n, func(i int) string { return "(channel-pop out)" }) + "))"
	out := zzC17Run(scope, src)
	vrt.Assert(out.class != 5, "deadlock: the program hangs")
	vrt.Assert(out.class == 0, "program signals")
	res, _ := out.val.(slip.List)
	vrt.Assert(len(res) == n, "result shape")
	vrt.Reach("forwarded")
	got := make([]int64, n)
	for i := 0; i < n; i++ {
		f, ok := res[i].(slip.Fixnum)
		vrt.Assert(ok, "a forwarded item is not the fixnum that was pushed")
		got[i] = int64(f)
	}
	// exactly-once: got is a permutation of a (as multisets): every pushed
	// value is forwarded as often as it was pushed
	for i := 0; i < n; i++ {
		pushed, seen := 0, 0
		for j := 0; j < n; j++ {
			if a[j] == a[i] {
				pushed++
			}
			if got[j] == a[i] {
				seen++
			}
		}
		vrt.Assert(pushed == seen, "an item pushed on the channel was forwarded twice or lost by two routines waiting in select")
	}
	vrt.Note("select-two", variant)
}
