package gi

import (
	"strconv"
	"strings"
	"sync"
	"time"

	"github.com/ohler55/slip"
	vrt "github.com/ohler55/slip/zzvrt"
)

// ---- close semantics ----

// VerifC17Close:
//
//	variant 0: items buffered before the close are still delivered in order; every pop after the drain returns nil (no blocking)
//	variant 1: push on a closed channel is a Lisp condition (class 1), the interpreter goes on and the channel still pops nil
//	variant 2: closing a closed channel is a Lisp condition
//	variant 3: close wakes a routine blocked in channel-pop (it receives nil)
//	variant 4: close of a channel a routine ranges over ends the range; the routine reports the count
func VerifC17Close(variant int) {
	scope := slip.NewScope()
	a := zzC17Bind(scope, "a", 2)
	zzC17Deadlock(1)
	var src string
	switch variant {
	case 0:
		src = "(let ((c (make-channel 3))) (channel-push c a0) (channel-push c a1) (channel-close c)" +
			" (list (length c) (channel-pop c) (channel-pop c) (channel-pop c) (channel-pop c) (length c)))"
	case 1:
		src = "(let ((c (make-channel 3))) (channel-close c)" +
			" (list (ignore-errors (channel-push c a0) 5) (channel-pop c) (length c)))"
	case 2:
		src = "(let ((c (make-channel 3))) (channel-push c a0) (channel-close c)" +
			" (list (ignore-errors (channel-close c) 5) (channel-pop c) (channel-pop c)))"
	case 3:
		src = "(let ((c (make-channel 0)) (r (make-channel 1)))" +
			" (run (channel-push r (list (channel-pop c) a1)))" +
			" (sleep 0.02) (channel-close c) (channel-pop r))"
	default:
		src = "(let ((c (make-channel 0)) (r (make-channel 1)))" +
			" (run (let ((n 0)) (range (lambda (x) (setq n (+ n 1))) c) (channel-push r n)))" +
			" (channel-push c a0) (channel-push c a1) (channel-close c) (channel-pop r))"
	}
	out := zzC17Run(scope, src)
	vrt.Assert(out.class != 5, "deadlock: the program hangs")
	vrt.Assert(out.class != 3 && out.class != 4, "Go run-time panic escaped to the caller")
	vrt.Assert(out.class == 0, "program signals")
	res, _ := out.val.(slip.List)
	vrt.Reach("closed")
	switch variant {
	case 0:
		vrt.Assert(len(res) == 6, "result shape")
		zzC17Fix(res[0], 2, "length of a closed channel holding 2 items")
		zzC17Fix(res[1], a[0], "first buffered item after close")
		zzC17Fix(res[2], a[1], "second buffered item after close")
		vrt.Assert(res[3] == nil && res[4] == nil, "pop on a closed drained channel must return nil")
		zzC17Fix(res[5], 0, "length after drain")
	case 1:
		vrt.Assert(len(res) == 3, "result shape")
		vrt.Assert(res[0] == nil, "push on a closed channel must signal a condition (ignore-errors returns nil)")
		vrt.Assert(res[1] == nil, "closed channel pops nil")
		zzC17Fix(res[2], 0, "nothing was queued by the failed push")
	case 2:
		vrt.Assert(len(res) == 3, "result shape")
		vrt.Assert(res[0] == nil, "closing a closed channel must signal a condition")
		zzC17Fix(res[1], a[0], "item queued before close")
		vrt.Assert(res[2] == nil, "closed channel pops nil")
	case 3:
		vrt.Assert(len(res) == 2, "result shape")
		vrt.Assert(res[0] == nil, "a pop woken by close returns nil")
		zzC17Fix(res[1], a[1], "payload carried by the woken routine")
	default:
		zzC17Fix(out.val, 2, "range visited both items and ended on close")
	}
	vrt.Note("close", variant)
}

// ---- range over a channel ----

// VerifC17Range: range visits every element once, in the order pushed, and
// ends when the channel is closed.
//
//	mode 0: producer routine, main ranges and collects
//	mode 1: a routine ranges over c and forwards to r (closing r at the end); main pushes, closes c and ranges over r
func VerifC17Range(capacity, k, mode, sched int) {
	scope := slip.NewScope()
	a := zzC17Bind(scope, "a", k)
	cs := strconv.Itoa(capacity)
	push := zzC17Rep(k, func(i int) string { return "(channel-push c " + zzC17Name("a", i) + ")" })
	collect := func(ch string) string {
		return "(let ((out nil) (n 0)) (range (lambda (x) (setq out (cons x out)) (setq n (+ n 1))) " + ch + ") (list n out))"
	}
	var src string
	if mode == 0 {
		src = "(let ((c (make-channel " + cs + ")))" +
			" (run (progn" + push + " (channel-close c)))" +
			" " + collect("c") + ")"
	} else {
		src = "(let ((c (make-channel " + cs + ")) (r (make-channel " + cs + ")))" +
			" (run (progn (range (lambda (x) (channel-push r x)) c) (channel-close r)))" +
			" (run (progn" + push + " (channel-close c)))" +
			" " + collect("r") + ")"
	}
	zzC17Sched(sched)
	zzC17Deadlock(1)
	out := zzC17Run(scope, src)
	vrt.Assert(out.class != 5, "deadlock: the program hangs")
	vrt.Assert(out.class == 0, "program signals")
	res, _ := out.val.(slip.List)
	vrt.Assert(len(res) == 2, "result shape")
	vrt.Reach("ranged")
	zzC17Fix(res[0], int64(k), "range must call the function once per element")
	got, _ := res[1].(slip.List)
	vrt.Assert(len(got) == k, "collected count")
	// collected by cons: newest first
	for i := 0; i < k; i++ {
		zzC17Fix(got[k-1-i], a[i], "range visits the elements in the order pushed")
	}
	vrt.Note("range", k, capacity, mode)
}

// ---- select ----

// VerifC17Select: select takes a value only from a ready clause, binds it to
// the clause variable, evaluates exactly the forms of that clause and leaves
// the other channels untouched.
//
//	ready bit 0: c1 holds a0 (and a2 behind it), bit 1: c2 holds a1
//	ready 0: nothing ready, a routine pushes a1 on c2 later (select blocks until then)
//	ready 4: c1 closed and empty (ready, the variable is bound to nil), c2 empty
//	ready 5: a clause that is not a list is a condition
//	ready 6: single clause with a channel variable only (no forms) returns nil and consumes the value
//	ready 7: nothing ready, a (time-after 0.02) clause fires; ready 8: c1 ready and a (time-after 30) clause pending: c1 is taken
func VerifC17Select(ready int) {
	scope := slip.NewScope()
	a := zzC17Bind(scope, "a", 3)
	zzC17Deadlock(1)
	pre := ""
	if ready&1 != 0 && ready < 4 {
		pre += " (channel-push c1 a0) (channel-push c1 a2)"
	}
	if ready&2 != 0 && ready < 4 {
		pre += " (channel-push c2 a1)"
	}
	switch ready {
	case 0:
		pre += " (run (channel-push c2 a1))"
	case 4:
		pre += " (channel-close c1)"
	}
	sel := "(select (c1 x (setq h1 (+ h1 1)) (list 1 x)) (c2 y (setq h2 (+ h2 1)) (list 2 y)))"
	switch ready {
	case 5:
		sel = "(ignore-errors (select 7) 9)"
	case 6:
		pre += " (channel-push c1 a0)"
		sel = "(list 3 (select (c1 x)))"
	case 7:
		// nothing ready: the time-after clause fires
		sel = "(select (c1 x (setq h1 (+ h1 1)) (list 1 x)) ((time-after 0.02) tm (setq h2 (+ h2 1)) (list 4 (if tm 5 6))))"
	case 8:
		// c1 ready, the timer is not: the timer clause must not be taken
		pre += " (channel-push c1 a0) (channel-push c1 a2)"
		sel = "(select ((time-after 30) tm (setq h2 (+ h2 1)) (list 4 (if tm 5 6))) (c1 x (setq h1 (+ h1 1)) (list 1 x)))"
	}
	src := "(let ((c1 (make-channel 2)) (c2 (make-channel 2)))" + pre +
		" (let ((h1 0) (h2 0) (r nil)) (setq r " + sel + ") (list r h1 h2 (length c1) (length c2))))"
	out := zzC17Run(scope, src)
	vrt.Assert(out.class != 5, "deadlock: the program hangs")
	vrt.Assert(out.class == 0, "program signals")
	res, _ := out.val.(slip.List)
	vrt.Assert(len(res) == 5, "result shape")
	r, _ := res[0].(slip.List)
	h1, _ := res[1].(slip.Fixnum)
	h2, _ := res[2].(slip.Fixnum)
	l1, _ := res[3].(slip.Fixnum)
	l2, _ := res[4].(slip.Fixnum)
	if ready == 5 {
		vrt.Reach("badclause")
		vrt.Assert(res[0] == nil, "a clause that is not a list must signal a condition")
		return
	}
	vrt.Assert(len(r) == 2, "select result shape")
	which, _ := r[0].(slip.Fixnum)
	switch which {
	case 1:
		vrt.Reach("chose1")
		vrt.Assert(ready == 1 || ready == 3 || ready == 4 || ready == 8, "select took a clause whose channel was not ready")
		if ready == 4 {
			vrt.Assert(r[1] == nil, "a closed channel binds the variable to nil")
			vrt.Assert(l1 == 0, "closed channel stays empty")
		} else {
			zzC17Fix(r[1], a[0], "select must bind the head of the chosen channel")
			vrt.Assert(l1 == 1, "exactly one value is taken from the chosen channel")
		}
		vrt.Assert(h1 == 1 && h2 == 0, "exactly the forms of the chosen clause are evaluated, once")
		if ready == 3 {
			vrt.Assert(l2 == 1, "the channel of the clause not chosen keeps its value")
		} else {
			vrt.Assert(l2 == 0, "other channel untouched")
		}
	case 2:
		vrt.Reach("chose2")
		vrt.Assert(ready == 2 || ready == 3 || ready == 0, "select took a clause whose channel was not ready")
		zzC17Fix(r[1], a[1], "select must bind the head of the chosen channel")
		vrt.Assert(h1 == 0 && h2 == 1, "exactly the forms of the chosen clause are evaluated, once")
		vrt.Assert(l2 == 0, "exactly one value is taken from the chosen channel")
		if ready == 3 {
			vrt.Assert(l1 == 2, "the channel of the clause not chosen keeps its values")
		} else {
			vrt.Assert(l1 == 0, "other channel untouched")
		}
	case 4:
		vrt.Reach("timeout")
		vrt.Assert(ready == 7, "the time-after clause was taken although its time had not come")
		zzC17Fix(r[1], 5, "the variable of a time clause is bound to the time")
		vrt.Assert(h1 == 0 && h2 == 1, "exactly the forms of the chosen clause are evaluated, once")
		vrt.Assert(l1 == 0 && l2 == 0, "channels untouched")
	case 3:
		vrt.Reach("noforms")
		vrt.Assert(ready == 6, "unexpected result")
		vrt.Assert(r[1] == nil, "a clause without forms returns nil")
		vrt.Assert(l1 == 0, "the value was consumed")
	default:
		vrt.Assert(false, "select returned something that no clause produces")
	}
	// schedule dependent (ready == 3): no note about the clause taken
	vrt.Note("select", ready)
}

// ---- with-mutex-lock: the mutex is free again after any exit ----

// VerifC17MutexExit:
//
//	kind 0 normal exit, 1 return-from out of the body, 2 error in the body (caught by ignore-errors),
//	kind 3 error caught by gi:recover, 4 error in the second of three forms inside unwind-protect,
//	kind 5 mutex argument is not a mutex (condition, nothing locked), 6 body with no forms
func VerifC17MutexExit(kind int) {
	scope := slip.NewScope()
	a := zzC17Bind(scope, "a", 2)
	zzC17Deadlock(1)
	var body string
	switch kind {
	case 0:
		body = "(with-mutex-lock m a0)"
	case 1:
		body = "(block b (with-mutex-lock m (return-from b a0)))"
	case 2:
		body = "(ignore-errors (with-mutex-lock m (error \"zz\") a0))"
	case 3:
		body = "(recover err a0 (with-mutex-lock m (car 7)))"
	case 4:
		body = "(ignore-errors (unwind-protect (with-mutex-lock m 1 (error \"zz\") 2) (setq zzc17u a0)))"
	case 5:
		body = "(ignore-errors (with-mutex-lock 7 a0))"
	default:
		body = "(with-mutex-lock m)"
	}
	held := vrt.HeldLocks()
	src := "(let ((m (make-mutex))) (list " + body + " (with-mutex-lock m a1) (with-mutex-lock m (with-mutex-lock (make-mutex) a1))))"
	out := zzC17Run(scope, src)
	vrt.Assert(out.class != 5, "deadlock: the mutex is still locked after the exit")
	vrt.Assert(out.class == 0, "program signals")
	res, _ := out.val.(slip.List)
	vrt.Assert(len(res) == 3, "result shape")
	vrt.Reach("exited")
	switch kind {
	case 0, 1, 3:
		zzC17Fix(res[0], a[0], "value of the guarded form")
	case 2, 4, 5, 6:
		vrt.Assert(res[0] == nil, "value of the guarded form")
	}
	zzC17Fix(res[1], a[1], "the mutex can be taken again")
	zzC17Fix(res[2], a[1], "nested locks of different mutexes")
	if vrt.Symbolic() {
		vrt.Assert(vrt.HeldLocks() == held, "a mutex is still held after the program")
	}
	vrt.Note("mutex-exit", kind)
}

// ---- a counter incremented under with-mutex-lock by two routines ----

// VerifC17Counter: two routines started by run add d1 (n1 times) and d2 (n2
// times) to a global counter under with-mutex-lock; inside the critical section
// the value is read, the routine yields (sleep) and only then writes back, and
// an overlap detector counts entries made while another routine is inside.
// The counter lives in a package-level variable (its table has its own lock),
// the channel and the mutex in a let scope that is only read.
func VerifC17Counter(n1, n2, sched int) { zzC17Counter(n1, n2, sched, 0) }

// VerifC17HashCounter: the same with the counter kept in an entry of a hash
// table (created before the routines start; the table is only touched under
// the mutex).
func VerifC17HashCounter(n1, n2, sched int) { zzC17Counter(n1, n2, sched, 1) }

func zzC17Counter(n1, n2, sched, store int) {
	scope := slip.NewScope()
	d := zzC17Bind(scope, "d", 2)
	zzC17Sched(sched)
	zzC17Deadlock(1)
	rd := "zzc17n"
	wr := func(v string) string { return "(setq zzc17n " + v + ")" }
	hs := ""
	if store == 1 {
		rd = "(gethash 'k h)"
		wr = func(v string) string { return "(setf (gethash 'k h) " + v + ")" }
		hs = " (h (let ((t1 (make-hash-table))) (setf (gethash 'k t1) 0) t1))"
	}
	worker := func(n int, dv string, id string) string {
		return " (run (progn (dotimes (i " + strconv.Itoa(n) + ")" +
			" (with-mutex-lock m" +
			" (if (= zzc17busy 0) nil (setq zzc17bad (+ zzc17bad 1)))" +
			" (setq zzc17busy 1)" +
			" (let ((v " + rd + ")) (sleep 0.001) " + wr("(+ v "+dv+")") + ")" +
			" (setq zzc17busy 0)))" +
			" (channel-push done " + id + ")))"
	}
	src := "(progn (setq zzc17n 0) (setq zzc17busy 0) (setq zzc17bad 0)" +
		" (let ((m (make-mutex)) (done (make-channel 0))" + hs + ")" +
		worker(n1, "d0", "1") + worker(n2, "d1", "2") +
		" (list (+ (channel-pop done) (channel-pop done)) (with-mutex-lock m " + rd + ") zzc17bad zzc17busy)))"
	out := zzC17Run(scope, src)
	vrt.Assert(out.class != 5, "deadlock: the program hangs")
	vrt.Assert(out.class == 0, "program signals")
	res, _ := out.val.(slip.List)
	vrt.Assert(len(res) == 4, "result shape")
	var want int64
	for i := 0; i < n1; i++ {
		want += d[0]
	}
	for i := 0; i < n2; i++ {
		want += d[1]
	}
	vrt.Reach("counted")
	zzC17Fix(res[0], 3, "both routines reported completion")
	zzC17Fix(res[1], want, "an update of the mutex-guarded counter was lost")
	zzC17Fix(res[2], 0, "two routines were inside with-mutex-lock on the same mutex at the same time")
	zzC17Fix(res[3], 0, "busy flag left set")
	if vrt.Symbolic() {
		vrt.Assert(vrt.HeldLocks() == 0, "a mutex is still held after the program")
	}
	vrt.Note("counter", n1, n2, store)
}

// ---- synchronized instances ----

// VerifC17SyncInst:
//
//	kind 0 (CLOS) / 1 (flavors): synchronizedp / set-synchronized round trip
//	kind 2 (CLOS) / 3 (flavors): two routines update different slots of a synchronized instance, a third slot is
//	       updated by both: no update is lost, the shared slot holds one of the two values
//	kind 4: set-synchronized / synchronizedp on something that is not an instance is a condition
//	kind 5 / 6: as 0 / 2 for a structure object (defstruct)
func VerifC17SyncInst(kind int, sched int) {
	scope := slip.NewScope()
	x := zzC17Bind(scope, "x", 2)
	zzC17Sched(sched)
	zzC17Deadlock(1)
	mk := "(defclass zzc17k () ((a :initform 0) (b :initform 0) (c :initform 0))) (setq zzc17i (make-instance 'zzc17k))"
	set := func(slot, v string) string { return "(setf (slot-value zzc17i '" + slot + ") " + v + ")" }
	get := func(slot string) string { return "(slot-value zzc17i '" + slot + ")" }
	if kind == 1 || kind == 3 {
		mk = "(defflavor zzc17f ((a 0) (b 0) (c 0)) () :gettable-instance-variables :settable-instance-variables) (setq zzc17i (make-instance 'zzc17f))"
		set = func(slot, v string) string { return "(send zzc17i :set-" + slot + " " + v + ")" }
		get = func(slot string) string { return "(send zzc17i :" + slot + ")" }
	}
	if kind == 5 || kind == 6 {
		mk = "(defstruct zzc17s (a 0) (b 0) (c 0)) (setq zzc17i (make-zzc17s))"
		set = func(slot, v string) string { return "(setf (zzc17s-" + slot + " zzc17i) " + v + ")" }
		get = func(slot string) string { return "(zzc17s-" + slot + " zzc17i)" }
	}
	var src string
	switch kind {
	case 0, 1, 5:
		src = "(progn " + mk + " (list (synchronizedp zzc17i) (set-synchronized zzc17i t) (synchronizedp zzc17i)" +
			" (set-synchronized zzc17i t) (synchronizedp zzc17i) " + set("a", "x0") + " (set-synchronized zzc17i nil) (synchronizedp zzc17i) " + get("a") + "))"
		if kind == 5 {
			// two call sites of one accessor inside one function, different arguments
			// (fixed finding C17-defstruct-accessor-shared-callsite: both sites evaluated the argument compiled last)
			src = "(progn (setq zzc17r " + src + ") (setq zzc17j (make-zzc17s :a x1))" +
				" (defun zzc17two (p q) (list (zzc17s-a p) (zzc17s-a q)))" +
				" (append zzc17r (zzc17two zzc17i zzc17j)))"
		}
	case 2, 3, 6:
		src = "(progn " + mk + " (set-synchronized zzc17i t)" +
			" (let ((done (make-channel 0)))" +
			" (run (progn " + set("a", "x0") + " (sleep 0.001) " + set("c", "x0") + " (channel-push done 1)))" +
			" (run (progn " + set("b", "x1") + " (sleep 0.001) " + set("c", "x1") + " (channel-push done 2)))" +
			" (list (+ (channel-pop done) (channel-pop done)) " + get("a") + " " + get("b") + " " + get("c") + " (synchronizedp zzc17i))))"
	default:
		src = "(list (ignore-errors (set-synchronized 7 t) 5) (ignore-errors (synchronizedp 7) 5))"
	}
	out := zzC17Run(scope, src)
	vrt.Assert(out.class != 5, "deadlock: the program hangs")
	vrt.Assert(out.class == 0, "program signals")
	res, _ := out.val.(slip.List)
	vrt.Reach("sync")
	switch kind {
	case 0, 1, 5:
		if kind == 5 {
			vrt.Assert(len(res) == 11, "result shape")
			zzC17Fix(res[9], x[0], "first call site of a structure accessor evaluates its own argument")
			zzC17Fix(res[10], x[1], "second call site of a structure accessor evaluates its own argument")
			res = res[:9]
		}
		vrt.Assert(len(res) == 9, "result shape")
		vrt.Assert(res[0] == nil, "a new instance is not synchronized")
		vrt.Assert(res[1] == slip.True && res[2] == slip.True, "set-synchronized t / synchronizedp")
		vrt.Assert(res[3] == slip.True && res[4] == slip.True, "set-synchronized t twice")
		vrt.Assert(res[6] == nil && res[7] == nil, "set-synchronized nil / synchronizedp")
		zzC17Fix(res[8], x[0], "slot value written while synchronized, read after")
	case 2, 3, 6:
		vrt.Assert(len(res) == 5, "result shape")
		zzC17Fix(res[0], 3, "both routines reported completion")
		zzC17Fix(res[1], x[0], "slot update by routine 1 lost")
		zzC17Fix(res[2], x[1], "slot update by routine 2 lost")
		c, ok := res[3].(slip.Fixnum)
		vrt.Assert(ok, "shared slot holds a fixnum")
		vrt.Assert(int64(c) == x[0] || int64(c) == x[1], "shared slot holds a value nobody wrote")
		vrt.Assert(res[4] == slip.True, "instance still synchronized")
		if vrt.Symbolic() {
			vrt.Assert(vrt.HeldLocks() == 0, "an instance mutex is still held")
		}
	default:
		vrt.Assert(len(res) == 2 && res[0] == nil && res[1] == nil, "non-instance argument must signal a condition")
	}
	// which value the shared slot ends with is schedule dependent: not noted
	vrt.Note("sync", kind)
}

// ---- primitives block when they must ----

// VerifC17Blocks: with no other routine able to help, the operation must block
// forever (in the engine: every task blocked = path end "deadlock", which is
// what this obligation requires to be reached); it must not return.
//
//	op 0 pop on an empty open channel, 1 second push on a channel of capacity 1, 2 push on an unbuffered channel,
//	op 3 select over two empty channels, 4 range over an open empty channel,
//	op 5 producer and consumer both finish but main waits for a third message
func VerifC17Blocks(op int) {
	scope := slip.NewScope()
	zzC17Bind(scope, "a", 1)
	zzC17Deadlock(2)
	zzC17Watchdog = 1500 * time.Millisecond // native replay of a counterexample: the program has to hang
	var src string
	switch op {
	case 0:
		src = "(let ((c (make-channel 2))) (channel-pop c))"
	case 1:
		src = "(let ((c (make-channel 1))) (channel-push c a0) (channel-push c a0))"
	case 2:
		src = "(let ((c (make-channel 0))) (channel-push c a0))"
	case 3:
		src = "(let ((c (make-channel 0)) (d (make-channel 1))) (select (c x x) (d y y)))"
	case 4:
		src = "(let ((c (make-channel 1))) (channel-push c a0) (range (lambda (x) x) c))"
	default:
		src = "(let ((c (make-channel 0))) (run (channel-push c a0)) (run (channel-push c a0)) (list (channel-pop c) (channel-pop c) (channel-pop c)))"
	}
	out := zzC17Run(scope, src)
	// engine: not reached when every task is blocked (path end "deadlock"); native: class 5 = still blocked after the watchdog time
	vrt.Assert(out.class == 5, "an operation that has to block returned: "+strings.TrimSpace(slip.ObjectString(out.val)))
}

// ---- findings ----

// VerifC17RunError: an error signalled inside the form given to run.
//
//	kind 0: the form handles its error (ignore-errors): the program goes on
//	kind 1: the error is not handled inside the routine: the Go runtime ends the whole process (finding)
//	kind 2: push on a channel closed by the main routine while the routine is parked in channel-push (finding, same cause)
//	kind 3: the routine signals and handles a condition in the scope shared with its parent: a parent variable called message keeps its value
func VerifC17RunError(kind int) {
	scope := slip.NewScope()
	a := zzC17Bind(scope, "a", 1)
	vrt.Carve("C17-run-error-kills-process", kind == 1 || kind == 2)
	zzC17Deadlock(1)
	var src string
	switch kind {
	case 0:
		// (the routine gets a scope of its own: signalling a condition binds self/message/... in the scope it is signalled in)
		src = "(let ((c (make-channel 1))) (run (let () (ignore-errors (error \"zz\")) (channel-push c a0))) (channel-pop c))"
	case 1:
		src = "(let ((c (make-channel 1))) (run (progn (error \"zz\") (channel-push c a0))) (sleep 0.05) (channel-push c a0) (channel-pop c))"
	case 2:
		src = "(let ((c (make-channel 0))) (run (channel-push c a0)) (sleep 0.05) (channel-close c) (sleep 0.05) a0)"
	default:
		// the routine signals (and handles) a condition in the scope it shares with its parent: the parent's
		// variables named like slots of the condition (message) must not be touched
		// (fixed finding C17-condition-slots-written-to-caller-scope; natively also a data race on the shared scope)
		src = "(let ((c (make-channel 1)) (message a0)) (run (progn (ignore-errors (error \"zz\")) (channel-push c 1))) (channel-pop c) message)"
	}
	out := zzC17Run(scope, src)
	vrt.Assert(out.class != 5, "deadlock: the program hangs")
	vrt.Assert(out.class == 0, "program signals")
	vrt.Reach("ran")
	zzC17Fix(out.val, a[0], "result (a variable of the scope shared with the routine was overwritten)")
	vrt.Note("run-error", kind)
}

// VerifC17SharedScope: a counter kept in a variable of the scope the routines
// were started from (the documented with-mutex-lock pattern) and updated only
// under with-mutex-lock.
//
//	shared 0: the counter is a package-level variable (own lock): no unguarded access to the scope's table
//	shared 1: the counter is a variable of the scope shared with the routine: the table of that scope is
//	          read (lookup of m, done, n) and written (setq n) by both routines and only the writes
//	          are under the program's mutex (finding: Go data race on Scope.Vars)
//
// Engine: lockset monitor on the scope's variable table with the program's
// mutex as the required lock. Native: the same program under the race detector.
func VerifC17SharedScope(shared int) {
	scope := slip.NewScope()
	d := zzC17Bind(scope, "d", 2)
	vrt.Carve("C17-run-shares-unlocked-scope", shared != 0)
	zzC17Deadlock(1)
	mu := &Mutex{}
	scope.Let(slip.Symbol("m"), mu)
	scope.Let(slip.Symbol("done"), Channel(make(chan slip.Object, 1)))
	scope.Let(slip.Symbol("zzn"), slip.Fixnum(0))
	cnt := "zzn"
	if shared == 0 {
		cnt = "zzc17g"
	}
	src := "(progn (setq zzc17g 0)" +
		" (run (progn (with-mutex-lock m (setq " + cnt + " (+ " + cnt + " d0))) (channel-push done 1)))" +
		" (with-mutex-lock m (setq " + cnt + " (+ " + cnt + " d1)))" +
		" (channel-pop done) (with-mutex-lock m " + cnt + "))"
	if vrt.Symbolic() && shared != 0 {
		vrt.Guard(scope.Vars, (*sync.Mutex)(mu), "variable table of the scope shared with the routine started by run")
	}
	out := zzC17Run(scope, src)
	vrt.Assert(out.class != 5, "deadlock: the program hangs")
	vrt.Assert(out.class == 0, "program signals")
	vrt.Reach("ran")
	zzC17Fix(out.val, d[0]+d[1], "an update of the mutex-guarded counter was lost")
	vrt.Assert(vrt.GuardViolations() == 0, "the variable table of a scope shared by two routines is accessed without a lock")
	vrt.Note("shared-scope", shared)
}
