package gi

import (
	"math/big"
	"strconv"

	"github.com/ohler55/slip"
	"github.com/ohler55/slip/pp"
	vrt "github.com/ohler55/slip/zzvrt"
)

// ---------------------------------------------------------------------------
// C19: definitions and data saved as source code reload to an equal world.
// ---------------------------------------------------------------------------

// zzC19Out is the outcome of an evaluation: a value or a classified panic.
type zzC19Out struct {
	val   slip.Object
	class int // 0 value, 1 lisp condition, 3 Go run-time fault, 4 other panic
	fault string
}

func zzC19Classify(rec any) (int, string) {
	switch tr := rec.(type) {
	case *slip.Panic:
		return 1, tr.Message
	case slip.Instance:
		return 1, ""
	case interface{ RuntimeError() }:
		return 3, tr.(error).Error()
	default:
		return 4, ""
	}
}

func zzC19Run(f func() slip.Object) (out zzC19Out) {
	defer func() {
		if rec := recover(); rec != nil {
			out.class, out.fault = zzC19Classify(rec)
			out.val = nil
		}
	}()
	out.val = f()
	return
}

// zzC19Gen builds a value from a shape text. Leaves take symbolic payloads.
//
//	i fixnum (symbolic int64)        b bignum (symbolic, any of 3 size classes)
//	B bignum within the int64 range  r ratio (concrete table)
//	s string of 2 symbolic bytes     e empty string       n nil     t T
//	k keyword symbol (2 symbolic bytes after the colon)
//	y plain symbol of 2 symbolic lower-case letters (not self-evaluating)
//	c character (symbolic rune)      f double-float (concrete)
//	( ... ) list      ( ... . x ) dotted list
//	[ ... ] adjustable vector   < ... > non-adjustable vector   ^ ... $ vector with fill pointer
//	#2x3 ... ; array with dims 2x3 (elements follow, row major); #2x3! non-adjustable
//	{ k v k v } hash table
type zzC19Gen struct {
	src string
	pos int
	n   int // leaf counter for unique names
	// what the shape contains, for the carve-out regions
	evalSym   bool // a non-self-evaluating symbol in an evaluated position
	htBadVal  bool // hash table value that is a symbol or a non-empty list
	htBadKey  bool // hash table key that is not symbol/string/number/nil
	nonAdj    bool // a non-adjustable vector/array
	fillPtr   bool // a vector with an active fill pointer
	zeroDim   bool // an array or vector with a dimension of 0
	htNested  bool // a hash table inside a list or vector
	nonAdjVec bool // a non-adjustable vector anywhere
	multiHT   bool // a hash table with more than one entry (its load form depends on Go map order)
	depth     int
	quoted    int  // >0 while inside a vector/array (quoted literal in the load form)
	conc      bool // leaves are fixed values instead of symbolic ones (text round trip)
	inHTValue int
}

func (g *zzC19Gen) name(p string) string {
	g.n++
	return p + strconv.Itoa(g.n)
}

var zzC19Ratios = [][2]int64{{1, 2}, {-7, 9}, {1 << 62, 3}, {-5, 1 << 40}}

var zzC19Words = []string{"alpha", "bravo-charlie", "delta", "echo-foxtrot-golf", "hotel", "india-juliet"}

func (g *zzC19Gen) lower(nm string) byte {
	if g.conc {
		return 'a' + byte((g.n*7+len(nm))%26)
	}
	c := vrt.Byte(nm)
	vrt.Assume('a' <= c && c <= 'z')
	return c
}

func (g *zzC19Gen) leafBignum(full bool) slip.Object {
	if g.conc {
		z := big.NewInt(int64(1234567 + g.n))
		if full {
			z.Lsh(z, 70)
		}
		return (*slip.Bignum)(z)
	}
	lo := vrt.Int64(g.name("blo"))
	if !full {
		return (*slip.Bignum)(big.NewInt(lo))
	}
	hi := vrt.Int64(g.name("bhi"))
	vrt.Assume(-1000 < hi && hi < 1000)
	z := big.NewInt(hi)
	z.Lsh(z, 64)
	z.Add(z, big.NewInt(lo))
	return (*slip.Bignum)(z)
}

func (g *zzC19Gen) value() slip.Object {
	c := g.src[g.pos]
	g.pos++
	switch c {
	case 'i':
		if g.conc {
			g.n++
			return slip.Fixnum(int64(g.n*g.n*g.n*37 - 100))
		}
		return slip.Fixnum(vrt.Int64(g.name("i")))
	case 'b':
		return g.leafBignum(true)
	case 'B':
		return g.leafBignum(false)
	case 'r':
		if g.conc {
			g.n++
			return slip.NewRatio(zzC19Ratios[g.n%len(zzC19Ratios)][0], zzC19Ratios[g.n%len(zzC19Ratios)][1])
		}
		k := vrt.Choice(g.name("r"), len(zzC19Ratios))
		return slip.NewRatio(zzC19Ratios[k][0], zzC19Ratios[k][1])
	case 's':
		if g.conc {
			g.n++
			return slip.String(zzC19Words[g.n%len(zzC19Words)])
		}
		return slip.String(vrt.String(g.name("s"), 2))
	case 'e':
		return slip.String("")
	case 'n':
		return nil
	case 't':
		return slip.True
	case 'f':
		return slip.DoubleFloat(2.5)
	case 'c':
		if g.conc {
			g.n++
			return slip.Character('A' + rune(g.n%26))
		}
		r := vrt.Rune(g.name("c"))
		vrt.Assume(0 <= r && r < 0xD800)
		return slip.Character(r)
	case 'k':
		nm := g.name("k")
		return slip.Symbol(string([]byte{':', g.lower(nm + "a"), g.lower(nm + "b")}))
	case 'y':
		nm := g.name("y")
		if g.quoted == 0 {
			if 0 < g.inHTValue {
				g.htBadVal = true
			} else {
				g.evalSym = true
			}
		}
		// two lower-case letters: never t, nil, a keyword or a number
		return slip.Symbol(string([]byte{g.lower(nm + "a"), g.lower(nm + "b")}))
	case '(':
		var list slip.List
		g.depth++
		for g.src[g.pos] != ')' {
			if g.src[g.pos] == '.' {
				g.pos++
				list = append(list, slip.Tail{Value: g.value()})
				continue
			}
			list = append(list, g.value())
		}
		g.pos++
		g.depth--
		if len(list) == 0 {
			return nil // the empty list is nil
		}
		if 0 < g.inHTValue && g.quoted == 0 {
			g.htBadVal = true
		}
		return list
	case '[', '<', '^', '&':
		end := map[byte]byte{'[': ']', '<': '>', '^': '$', '&': '$'}[c]
		var list slip.List
		g.quoted++
		g.depth++
		for g.src[g.pos] != end {
			list = append(list, g.value())
		}
		g.depth--
		g.quoted--
		g.pos++
		literal := 0 < g.quoted || 0 < g.inHTValue // stays a literal object inside the form
		if list == nil {
			list = slip.List{}
			g.zeroDim = g.zeroDim || !literal
		}
		v := slip.NewVector(len(list), slip.TrueSymbol, nil, list, c != '<')
		if c == '<' {
			g.nonAdj = g.nonAdj || !literal
			g.nonAdjVec = true
		}
		if c == '^' {
			g.fillPtr = g.fillPtr || !literal
			v.FillPtr = len(list) - 1
		}
		if c == '&' { // fill pointer at the end: a full stack, (make-array n :fill-pointer t)
			g.fillPtr = g.fillPtr || !literal
			v.FillPtr = len(list)
		}
		return v
	case '#':
		var dims []int
		for {
			d := int(g.src[g.pos] - '0')
			g.pos++
			dims = append(dims, d)
			if d == 0 && g.quoted == 0 && g.inHTValue == 0 {
				g.zeroDim = true
			}
			if g.src[g.pos] != 'x' {
				break
			}
			g.pos++
		}
		adj := true
		if g.src[g.pos] == '!' {
			adj = false
			if g.quoted == 0 && g.inHTValue == 0 {
				g.nonAdj = true
			}
			g.pos++
		}
		a := slip.NewArray(dims, slip.TrueSymbol, nil, nil, adj)
		g.quoted++
		for k := 0; g.src[g.pos] != ';'; k++ {
			a.MajorSet(k, g.value())
		}
		g.quoted--
		g.pos++
		return a
	case '{':
		if 0 < g.depth {
			g.htNested = true
		}
		ht := slip.HashTable{}
		for g.src[g.pos] != '}' {
			kc := g.src[g.pos]
			var key slip.Object
			if kc == 'Y' { // concrete plain symbol key
				g.pos++
				key = slip.Symbol("ky" + strconv.Itoa(len(ht)))
			} else if kc == 'S' { // concrete string key
				g.pos++
				key = slip.String("ks" + strconv.Itoa(len(ht)))
			} else if kc == 'I' { // concrete fixnum key
				g.pos++
				key = slip.Fixnum(10 + len(ht))
			} else if kc == 'C' { // concrete character key
				g.pos++
				key = slip.Character('a' + rune(len(ht)))
				g.htBadKey = true
			} else {
				q := g.quoted
				g.quoted = 1 // a key symbol is quoted by the load form: not an evaluated symbol
				key = g.value()
				g.quoted = q
			}
			g.inHTValue++
			val := g.value()
			g.inHTValue--
			ht[key] = val
		}
		g.pos++
		if 1 < len(ht) {
			g.multiHT = true
		}
		return ht
	}
	panic("zzC19Gen: bad shape " + g.src)
}

// zzC19Same is an independent structural comparison (type and content).
func zzC19Same(a, b slip.Object) bool {
	switch ta := a.(type) {
	case nil:
		if lb, ok := b.(slip.List); ok && len(lb) == 0 {
			return true // () and nil are the same object in Lisp
		}
		return b == nil
	case slip.Fixnum:
		tb, ok := b.(slip.Fixnum)
		return ok && int64(ta) == int64(tb)
	case *slip.Bignum:
		tb, ok := b.(*slip.Bignum)
		return ok && (*big.Int)(ta).Cmp((*big.Int)(tb)) == 0
	case *slip.Ratio:
		tb, ok := b.(*slip.Ratio)
		return ok && (*big.Rat)(ta).Cmp((*big.Rat)(tb)) == 0
	case slip.String:
		tb, ok := b.(slip.String)
		return ok && string(ta) == string(tb)
	case slip.Symbol:
		tb, ok := b.(slip.Symbol)
		return ok && string(ta) == string(tb)
	case slip.Character:
		tb, ok := b.(slip.Character)
		return ok && rune(ta) == rune(tb)
	case slip.DoubleFloat:
		tb, ok := b.(slip.DoubleFloat)
		return ok && float64(ta) == float64(tb)
	case slip.Tail:
		tb, ok := b.(slip.Tail)
		return ok && zzC19Same(ta.Value, tb.Value)
	case slip.List:
		if b == nil {
			return len(ta) == 0
		}
		tb, ok := b.(slip.List)
		if !ok || len(ta) != len(tb) {
			return false
		}
		for i := 0; i < len(ta); i++ {
			if !zzC19Same(ta[i], tb[i]) {
				return false
			}
		}
		return true
	case *slip.Vector:
		tb, ok := b.(*slip.Vector)
		if !ok || ta.Adjustable() != tb.Adjustable() || ta.ElementType() != tb.ElementType() {
			return false
		}
		ea, eb := ta.Elements(), tb.Elements()
		if len(ea) != len(eb) || ta.FillPtr != tb.FillPtr {
			return false
		}
		for i := 0; i < len(ea); i++ {
			if !zzC19Same(ea[i], eb[i]) {
				return false
			}
		}
		return true
	case *slip.Array:
		tb, ok := b.(*slip.Array)
		if !ok || ta.Adjustable() != tb.Adjustable() || ta.ElementType() != tb.ElementType() {
			return false
		}
		da, db := ta.Dimensions(), tb.Dimensions()
		if len(da) != len(db) {
			return false
		}
		for i := 0; i < len(da); i++ {
			if da[i] != db[i] {
				return false
			}
		}
		ea, eb := ta.Elements(), tb.Elements()
		if len(ea) != len(eb) {
			return false
		}
		for i := 0; i < len(ea); i++ {
			if !zzC19Same(ea[i], eb[i]) {
				return false
			}
		}
		return true
	case slip.HashTable:
		tb, ok := b.(slip.HashTable)
		if !ok || len(ta) != len(tb) {
			return false
		}
		// every entry of a has a structurally same entry in b (keys are atoms)
		for ka, va := range ta {
			found := false
			for kb, vb := range tb {
				if zzC19Same(ka, kb) && zzC19Same(va, vb) {
					found = true
				}
			}
			if !found {
				return false
			}
		}
		return true
	}
	if b == nil {
		return false
	}
	return a == b
}

func zzC19Type(x slip.Object) slip.Symbol {
	if x == nil {
		return slip.Symbol("null")
	}
	return x.Hierarchy()[0]
}

var zzC19Shapes = []string{
	/* 0 */ "i", "b", "B", "r", "s", "e", "k", "c", "t", "y",
	/* 10 */ "(i)", "(is)", "(isn)", "(i(sn)i)", "(i(i(i)))", "(((i)))", "(nn)", "(bBrc)", "(kk)", "()",
	/* 20 */ "(i.i)", "(i.s)", "(ii.i)", "(iii.i)", "(is.i)", "((i.i).i)", "(n.i)", "(i(i.i)i)", "((i.i)i.i)", "(iiii.i)",
	/* 30 */ "(y)", "(iy)", "(i.y)", "(y.i)", "(iy.i)", "((y))", "([y])", "({Yi})", "(t)", "(f)",
	/* 40 */ "[]", "[i]", "[is]", "[iyn]", "[(iy)]", "[[i]]", "[(i.i)]", "<i>", "<>", "^ii$",
	/* 50 */ "#2x2iiii;", "#1x3isy;", "#2x1(i)n;", "#3x1iii;", "#2x0;", "#1x1x2ii;", "#2x2!iiii;", "#1x2x1ii;", "#1x1n;", "#2x2[i]nn{Yi};",
	/* 60 */ "{}", "{Yi}", "{Ss}", "{Ii}", "{ni}", "{YiSsIn}", "{yi}", "{ki}", "{ii}", "{si}",
	/* 70 */ "{Yy}", "{Y(i)}", "{Yn}", "{Yk}", "{Yt}", "{Ci}", "{Y[i]}", "{Y{Ii}}", "{bi}", "{ri}",
	/* 80 */ "([i]{Yi})", "(i[i].{Yi})", "((i)[(i)]i)", "{Yc}", "{Yb}", "{Yr}", "{Yf}", "(ci)", "(es)", "(r.r)",
	/* 90 (thorough) */ "(i(s(i(s))))", "((i.s)(s.i)(n.i))", "(iiiiiiii)", "(ssss.s)", "[(i[s(i)])]", "#2x2x2iiiiiiii;", "#3x2(i)[s]{Yi}nts;", "{YiYsYnYtYbYr}", "{SiSsIiIs}", "(b(B(r(c))))",
	/* 100 */ "((((i))).i)", "[[[i]]]", "(k.k)", "{kikskn}", "(i.b)", "(b.i)", "{Y[]}", "{Y<i>}", "(^iii$)", "([]<i>^ii$)",
	/* 110 */ "&ii$", "&i$", "(&is$i)", "&$",
}

// VerifC19LoadForm: for the value of the given shape, evaluating the load
// form (no text involved) gives an object Equal to the value, of the same
// type and structurally the same.
func VerifC19LoadForm(shape int) {
	g := zzC19Gen{src: zzC19Shapes[shape]}
	x := g.value()
	vrt.Carve("C19-symbol-load-form-unquoted", g.evalSym)
	// Symbol.LoadForm itself still returns the bare symbol (Function.LoadForm relies on
	// that for variable references): only a symbol that is the whole value is affected
	topSym, isTopSym := x.(slip.Symbol)
	vrt.Carve("C19-symbol-load-form-bare", isTopSym && topSym[0] != ':')
	vrt.Carve("C19-hash-table-value-not-quoted", g.htBadVal)
	vrt.Carve("C19-hash-table-key-dropped", g.htBadKey)
	vrt.Carve("C19-array-not-adjustable-lost", g.nonAdj)
	vrt.Carve("C19-vector-fill-pointer", g.fillPtr)
	vrt.Carve("C19-array-zero-dimension", g.zeroDim)
	scope := slip.NewScope()
	var form slip.Object
	lf := zzC19Run(func() slip.Object {
		if x == nil {
			return nil
		}
		form = x.(slip.LoadFormer).LoadForm()
		return nil
	})
	vrt.Assert(lf.class != 3, "Go run-time fault in LoadForm")
	vrt.Assert(lf.class == 0, "LoadForm signals for a load-formable value")
	out := zzC19Run(func() slip.Object { return scope.Eval(form, 0) })
	vrt.Reach("compared")
	vrt.Assert(out.class != 3, "Go run-time fault evaluating the load form")
	vrt.Assert(out.class == 0, "evaluating the load form signals")
	vrt.Assert(zzC19Type(x) == zzC19Type(out.val), "reloaded object has another type")
	vrt.Assert(slip.ObjectEqual(x, out.val), "reloaded object is not Equal to the original")
	vrt.Assert(zzC19Same(x, out.val), "reloaded object differs structurally from the original")
}

// ---------------------------------------------------------------------------
// function calls and lambdas
// ---------------------------------------------------------------------------

// zzC19Subst copies a form read from a concrete template and replaces the
// placeholder symbols by leaves: $i fixnum, $s string (2 bytes), $d string
// (2 bytes, used as doc string), $e empty string. With conc the leaves are
// fixed values, otherwise symbolic.
type zzC19Sub struct {
	n    int
	conc bool
	pre  string
	xs   []slip.Object // values for the placeholders $x0, $x1, ... (shared by all occurrences)
}

func (u *zzC19Sub) subst(obj slip.Object) slip.Object {
	switch to := obj.(type) {
	case slip.Symbol:
		switch string(to) {
		case "$i":
			u.n++
			if u.conc {
				return slip.Fixnum(100 + 7*u.n)
			}
			v := vrt.Int64(u.pre + "i" + strconv.Itoa(u.n))
			vrt.Assume(-1000000 < v && v < 1000000)
			return slip.Fixnum(v)
		case "$s", "$d":
			u.n++
			if u.conc {
				return slip.String("s-" + strconv.Itoa(u.n))
			}
			return slip.String(vrt.String(u.pre+"s"+strconv.Itoa(u.n), 2))
		case "$e":
			return slip.String("")
		}
		if len(to) == 3 && to[0] == '$' && to[1] == 'x' && int(to[2]-'0') < len(u.xs) {
			return u.xs[to[2]-'0']
		}
		return to
	case slip.List:
		out := make(slip.List, len(to))
		for i, v := range to {
			out[i] = u.subst(v)
		}
		return out
	case slip.Tail:
		return slip.Tail{Value: u.subst(to.Value)}
	}
	return obj
}

// zzC19Sexp normalises a form to plain data: function objects become lists
// (name . args), variable references become symbols.
func zzC19Sexp(obj slip.Object) slip.Object {
	switch to := obj.(type) {
	case nil:
		return nil
	case slip.List:
		out := make(slip.List, len(to))
		for i, v := range to {
			out[i] = zzC19Sexp(v)
		}
		return out
	case slip.Tail:
		return slip.Tail{Value: zzC19Sexp(to.Value)}
	case *slip.VarVal:
		return slip.Symbol(to.String())
	case slip.Symbol:
		if string(to) == "t" || string(to) == "T" {
			return slip.True // the reader gives the object T for the token t
		}
		return to
	case *slip.Lambda:
		return zzC19Sexp(to.LoadForm())
	case slip.Funky:
		args := to.GetArgs()
		out := make(slip.List, len(args)+1)
		if d, ok := obj.(*slip.Dynamic); ok && len(to.GetName()) == 0 {
			out[0] = zzC19Sexp(d.Self.(*slip.Lambda).LoadForm())
		} else {
			out[0] = slip.Symbol(to.GetName())
		}
		for i, v := range args {
			out[i+1] = zzC19Sexp(v)
		}
		return out
	}
	return obj
}

// zzC19HasEvalList: does the call (as a source list) have a list in an
// evaluated argument position, at any depth of evaluated positions?  Only
// used for the carve-out of uncompiled calls; the heads used by the templates
// whose arguments are not evaluated are listed here.
func zzC19HasEvalList(src slip.List) bool {
	if len(src) == 0 {
		return false
	}
	if h, ok := src[0].(slip.Symbol); ok {
		switch string(h) {
		case "quote", "let", "cond", "lambda", "if", "setq", "defun":
			return false
		}
	}
	for _, a := range src[1:] {
		if l, ok := a.(slip.List); ok && 0 < len(l) {
			return true
		}
	}
	return false
}

var zzC19Calls = []string{
	/* 0 */ "(+ $i $i)",
	/* 1 */ "(+ $i (* $i 2))",
	/* 2 */ "(car (quote ($i $i)))",
	/* 3 */ "(list $s (cons $i nil))",
	/* 4 */ "(let ((a $i)) (+ a $i))",
	/* 5 */ "(if (< $i $i) $s (list $i))",
	/* 6 */ "(car nil)",
	/* 7 */ "(list $s $s :k $i)",
	/* 8 */ "(funcall (lambda (x) (+ x $i)) $i)",
	/* 9 */ "((lambda (x y) (list x y)) $i $s)",
	/* 10 */ "(cond ((< $i 0) $s) (t $i))",
	/* 11 */ "(quote (a . $i))",
	/* 12 */ "(vector $i #\\a $s)",
	/* 13 */ "(list (list (list $i)))",
	/* 14 */ "(length $s)",
	/* 15 */ "(null nil)",
}

// VerifC19Call: a function call object f is rebuilt by ListToFunc from its
// load form; mode 0: f compiled (CompileList, what defun bodies hold), mode 1:
// f as ListToFunc leaves it (nested calls still lists).
func VerifC19Call(tmpl int, mode int) {
	scope := slip.NewScope()
	u := zzC19Sub{pre: "c"}
	src := u.subst(slip.ReadString(zzC19Calls[tmpl], scope)[0]).(slip.List)
	expect := zzC19Sexp((&zzC19Sub{pre: "x"}).subst(src)) // deep copy taken before anything compiles in place
	vrt.Carve("C19-function-load-form-uncompiled-args", mode == 1 && zzC19HasEvalList(src))
	var f slip.Object
	mk := zzC19Run(func() slip.Object {
		if mode == 0 {
			f = slip.CompileList(src)
		} else {
			f = slip.ListToFunc(scope, src, 0)
		}
		return nil
	})
	vrt.Assert(mk.class == 0 && f != nil, "could not build the call object")
	var form slip.Object
	lf := zzC19Run(func() slip.Object { form = f.(slip.LoadFormer).LoadForm(); return nil })
	vrt.Assert(lf.class != 3, "Go run-time fault in LoadForm of a call")
	vrt.Assert(lf.class == 0, "LoadForm of a call signals")
	list, isList := form.(slip.List)
	vrt.Assert(isList, "load form of a call is not a list")
	vrt.Assert(zzC19Same(zzC19Sexp(form), expect), "load form of a call differs from its source")
	var f2 slip.Object
	re := zzC19Run(func() slip.Object {
		if mode == 0 {
			f2 = slip.CompileList(list)
		} else {
			f2 = slip.ListToFunc(scope, list, 0)
		}
		return nil
	})
	vrt.Reach("compared")
	vrt.Assert(re.class == 0 && f2 != nil, "the load form of a call does not convert back to a call")
	vrt.Assert(zzC19Type(f) == zzC19Type(f2), "rebuilt call has another type")
	if mode == 0 {
		vrt.Assert(f.Equal(f2), "rebuilt call is not Equal to the original")
	}
	vrt.Assert(zzC19Same(zzC19Sexp(f), zzC19Sexp(f2)), "rebuilt call differs from the original")
	r1 := zzC19Run(func() slip.Object { return slip.NewScope().Eval(f, 0) })
	r2 := zzC19Run(func() slip.Object { return slip.NewScope().Eval(f2, 0) })
	vrt.Assert(r1.class != 3 && r2.class != 3, "Go run-time fault evaluating a call")
	vrt.Assert(r1.class == r2.class, "original and rebuilt call: one signals, the other does not")
	if r1.class == 0 {
		vrt.Assert(slip.ObjectEqual(r1.val, r2.val), "original and rebuilt call evaluate differently")
	}
}

type zzC19LamT struct {
	src   string
	nargs int  // fixnum arguments of the test call
	exact bool // the load form must be the source itself
}

var zzC19Lambdas = []zzC19LamT{
	/* 0 */ {"(lambda () $i)", 0, true},
	/* 1 */ {"(lambda (x) (+ x $i))", 1, true},
	/* 2 */ {"(lambda (x &optional (y $i)) $d (+ x y))", 1, true},
	/* 3 */ {"(lambda (x &optional (y $i)) $d (+ x y))", 2, true},
	/* 4 */ {"(lambda (x &key (k $s)) (list x k))", 1, true},
	/* 5 */ {"(lambda (&rest r) (cons $i r))", 2, true},
	/* 6 */ {"(lambda (x y) (if (< x y) $s (list x $i)))", 2, true},
	/* 7 */ {"(lambda (x) (let ((a $i)) (* a 2)))", 1, true},
	/* 8 */ {"(lambda (x &optional (y nil)) (list x y))", 1, false},
	/* 9 */ {"(lambda (x) $e (list x $i))", 1, false},
	/* 10 */ {"(lambda (x) $d)", 1, true},
	/* 11 */ {"(lambda (x) $s $s $i)", 1, true},
	/* 12 */ {"(lambda (x) $e $s $i)", 1, false},
	/* 13 */ {"(lambda (x) (lambda (y) (+ x y $i)))", 1, true},
	/* 14 */ {"(lambda (x) (quote (a $i (b . $s))))", 1, true},
	/* 15 */ {"(lambda (x) *print-base*)", 1, true},
}

// VerifC19Lambda: evaluating the load form of a lambda gives a lambda with
// the same load form (fixed point), the load form is the source, and both
// lambdas behave the same on symbolic fixnum arguments.
func VerifC19Lambda(tmpl int) {
	t := zzC19Lambdas[tmpl]
	scope := slip.NewScope()
	u := zzC19Sub{pre: "l"}
	src := u.subst(slip.ReadString(t.src, scope)[0]).(slip.List)
	expect := zzC19Sexp((&zzC19Sub{pre: "x"}).subst(src))
	mk := zzC19Run(func() slip.Object { return scope.Eval(src, 0) })
	lam, isLam := mk.val.(*slip.Lambda)
	vrt.Assert(mk.class == 0 && isLam, "could not build the lambda")
	form := lam.LoadForm()
	if t.exact {
		vrt.Assert(zzC19Same(zzC19Sexp(form), expect), "load form of a lambda differs from its source")
	}
	re := zzC19Run(func() slip.Object { return slip.NewScope().Eval(form, 0) })
	vrt.Reach("compared")
	vrt.Assert(re.class != 3, "Go run-time fault evaluating the load form of a lambda")
	lam2, isLam2 := re.val.(*slip.Lambda)
	vrt.Assert(re.class == 0 && isLam2, "the load form of a lambda does not evaluate to a lambda")
	vrt.Assert(zzC19Same(zzC19Sexp(lam2.LoadForm()), zzC19Sexp(form)), "load form of the reloaded lambda differs (no fixed point)")
	args := make(slip.List, t.nargs)
	for i := range args {
		a := vrt.Int64("arg" + strconv.Itoa(i))
		vrt.Assume(-1000000 < a && a < 1000000)
		args[i] = slip.Fixnum(a)
	}
	r1 := zzC19Run(func() slip.Object { return lam.Call(slip.NewScope(), args, 0) })
	r2 := zzC19Run(func() slip.Object { return lam2.Call(slip.NewScope(), args, 0) })
	vrt.Assert(r1.class != 3 && r2.class != 3, "Go run-time fault calling a lambda")
	vrt.Assert(r1.class == r2.class, "original and reloaded lambda: one signals, the other does not")
	if r1.class == 0 {
		if l1, ok := r1.val.(*slip.Lambda); ok {
			l2, ok2 := r2.val.(*slip.Lambda)
			vrt.Assert(ok2 && zzC19Same(zzC19Sexp(l1.LoadForm()), zzC19Sexp(l2.LoadForm())), "returned lambdas differ")
		} else {
			vrt.Assert(slip.ObjectEqual(r1.val, r2.val), "original and reloaded lambda return different values")
		}
	}
}

// ---------------------------------------------------------------------------
// through text: pretty printer with a symbolic right margin -> real reader
// ---------------------------------------------------------------------------

var zzC19TextShapes = []string{
	/* 0 */ "(ssssssss)", "((iii)(sss)(iii)(sss))", "(i(s(i(s(i(s(i)))))))", "{YiSsInYs}", "(bBcte)", "[ssssss]", "#2x3ssssss;", "(ss.s)", "(ssss.s)", "(k(ks)[is]{Yi}.s)",
	/* 10 */ "([s[s[s[ss]]]])", "(((((((ssss)))))))", "{Y[ssss]Ys}", "(s{Ss}s{Ss}s)", "(iiiiiiiiiiiiiiiiiiii)", "([]()e)", "<ssss>", "#2x2![ss](ss)sn;", "(yy(yy).y)", "{Yy}",
	/* 20 (thorough) */ "(ssssssssssssssss)", "((ss(ss(ss(ss(ss))))))", "{YsYsYsYsYsYs}", "#2x2x2ssssssss;", "([ss][ss][ss][ss])", "(sss.s)", "{Y[s[s[s]]]}", "(bbbbbb)", "(BBBBBBBB)", "(cccccccccccccccccccc)",
}

// zzC19TextTrip prints form with the right margin set to margin, reads the
// text back and compares with the form (as plain data).
func zzC19TextTrip(form slip.Object, margin int64, note bool) {
	scope := slip.NewScope()
	scope.Let(slip.Symbol("*print-right-margin*"), slip.Fixnum(margin))
	var text []byte
	pr := zzC19Run(func() slip.Object { text = pp.Append(nil, scope, form); return nil })
	vrt.Assert(pr.class != 3, "Go run-time fault in the pretty printer")
	vrt.Assert(pr.class == 0, "the pretty printer signals on a load form")
	var code slip.Code
	rd := zzC19Run(func() slip.Object { code = slip.Read(text, slip.NewScope()); return nil })
	vrt.Reach("compared")
	vrt.Assert(rd.class != 3, "Go run-time fault reading pretty printed text")
	vrt.Assert(rd.class == 0, "pretty printed load form is not readable")
	vrt.Assert(len(code) == 1, "pretty printed load form reads as another number of forms")
	vrt.Assert(zzC19Same(zzC19Sexp(code[0]), zzC19Sexp(form)), "pretty printed load form reads back as a different form")
	if note { // not when the text depends on Go map iteration order
		vrt.Note("text", strconv.Quote(string(text)))
	}
}

func zzC19Margin() int64 {
	m := vrt.Int64("margin")
	vrt.Assume(20 <= m && m <= 120)
	return m
}

// VerifC19TextData: load form of a data value (concrete leaves) through
// pp.Append with a symbolic right margin and the real reader.
func VerifC19TextData(shape int) {
	g := zzC19Gen{src: zzC19TextShapes[shape], conc: true}
	x := g.value()
	form := x.(slip.LoadFormer).LoadForm()
	// an empty dimension makes the load form contain (quote ()), printed as 'nil
	vrt.Carve("C19-reader-quote-nil-t", g.zeroDim)
	margin := zzC19Margin()
	// a wrapped quoted list below a moved parent: Quote.setLeft leaves its child behind
	vrt.Carve("C19-pp-quote-child-not-shifted", shape == 24 && margin < 28)
	zzC19TextTrip(form, margin, !g.multiHT)
}

// VerifC19TextCode: load form of a call (kind 0) or lambda (kind 1) template
// with concrete leaves through text.
func VerifC19TextCode(kind int, tmpl int) {
	scope := slip.NewScope()
	u := zzC19Sub{conc: true}
	var form slip.Object
	if kind == 0 {
		src := u.subst(slip.ReadString(zzC19Calls[tmpl], scope)[0]).(slip.List)
		form = slip.CompileList(src).(slip.LoadFormer).LoadForm()
	} else {
		src := u.subst(slip.ReadString(zzC19Lambdas[tmpl].src, scope)[0]).(slip.List)
		form = scope.Eval(src, 0).(slip.LoadFormer).LoadForm()
	}
	zzC19TextTrip(form, zzC19Margin(), true)
}

// ---------------------------------------------------------------------------
// definitions: defun / defmacro / defflavor / defclass / defgeneric
// ---------------------------------------------------------------------------

type zzC19DefT struct {
	src   string // definition forms; every defined name starts with name
	name  string
	nargs int // for functions: fixnum arguments of a test call, -1: no call
}

var zzC19Defs = []zzC19DefT{
	/* 0 */ {`(defun zzc19a (x) (+ x $i))`, "zzc19a", 1},
	/* 1 */ {`(defun zzc19b (x &optional (y $i) &key (k $s)) $d
	            (let ((a (+ x y)) (b (+ x $i)))
	              (cond ((< a b) (list a b k)) (t (dolist (el (list a b)) (list el)) nil))))`, "zzc19b", 2},
	/* 2 */ {`(defmacro zzc19c (x &rest body) (list (quote progn) (list (quote quote) x) (cons (quote list) body)))`, "zzc19c", -1},
	/* 3 */ {`(defun zzc19d (&rest args) $d (if (null args) $s (let* ((f (car args)) (r (cdr args))) (list f r $i))))`, "zzc19d", 2},
	/* 4 */ {`(defflavor zzc19e ((a $i) (b $s) c) ()
	            :gettable-instance-variables (:settable-instance-variables a)
	            :inittable-instance-variables (:documentation "a flavor for the check"))`, "zzc19e", -1},
	/* 5 */ {`(defflavor zzc19f (a b) () (:gettable-instance-variables a) (:inittable-instance-variables b))`, "zzc19f", -1},
	/* 6 */ {`(defflavor zzbase19g ((p $i)) () :gettable-instance-variables)
	          (defflavor zzc19g ((q $s)) (zzbase19g) :settable-instance-variables
	            (:default-init-plist (:p $i)) (:required-methods :run) (:required-instance-variables p) :abstract-flavor)`, "zzc19g", -1},
	/* 7 */ {`(defclass zzc19h () ((a :initarg :a :initform $i) (b :initform $s :documentation "slot b" :type string))
	            (:documentation "a class for the check") (:default-initargs :a $i))`, "zzc19h", -1},
	/* 8 */ {`(defclass zzc19i () ((a :initarg :a :accessor zzc19i-a) (b :reader zzc19i-b :initform $i)))`, "zzc19i", -1},
	/* 9 */ {`(defclass zzbase19j () ((p :initform $i)))
	          (defclass zzc19j (zzbase19j) ((q :allocation :class :initform $s)))`, "zzc19j", -1},
	/* 10 */ {`(defgeneric zzc19k (x y) (:documentation "gen doc")
	            (:method ((x fixnum) (y string)) (list x y $i))
	            (:method :before ((x fixnum) (y string)) (list x)))
	          (defmethod zzc19k ((x string) (y t)) "meth doc" (cons x $s))`, "zzc19k", -1},
	/* 11 */ {`(defgeneric zzc19l (x &optional o))
	           (defmethod zzc19l ((x fixnum) &optional (o $i)) (+ x o))
	           (defmethod zzc19l :around ((x fixnum) &optional (o $i)) (list (call-next-method)))`, "zzc19l", -1},
	/* 12 */ {`(defun zzc19m (x) (lambda (y) (+ x y $i)))`, "zzc19m", -1},
	/* 13 */ {`(defun zzc19n (x) $d (with-output-to-string (out) (format out $s x)) (block nil (return (list x))))`, "zzc19n", -1},
	/* 14 */ {`(defflavor zzc19o (a b c) () (:inittable-instance-variables b) (:gettable-instance-variables a c) (:init-keywords :kk))`, "zzc19o", -1},
	/* 15 */ {`(defclass zzc19p () ((a :writer zzc19p-set-a :initform $i)))`, "zzc19p", -1},
	/* 16 */ {`(defun zzc19q (x) "use _x_ here" (list x $i))`, "zzc19q", 1},
	/* 17 */ {`(defun zzc19r (x) "say \"hi\" now" (list x $i))`, "zzc19r", 1},
	/* 18 */ {`(defun zzc19s (x) (list (quote nil) (quote t) x $i))`, "zzc19s", 1},
	/* 19 */ {`(defun zzc19t (x) (list (quote 5) x $i))`, "zzc19t", 1},
	/* 20 */ {`(defun zzc19u (x) "a documentation string that is rather long for a narrow page" (list x $i))`, "zzc19u", 1},
}

// zzC19DocFit: the smallest right margin at which every documentation string
// of the template's load form still fits on its line (0: no doc string that
// could be wrapped within 20..120).
var zzC19DocFit = map[int]int64{7: 25, 20: 64}

func zzC19Rename(obj slip.Object, name string) slip.Object {
	switch to := obj.(type) {
	case slip.Symbol:
		if len(name) <= len(to) && string(to[:len(name)]) == name {
			return slip.Symbol(name + "-r" + string(to[len(name):]))
		}
		return to
	case slip.List:
		out := make(slip.List, len(to))
		for i, v := range to {
			out[i] = zzC19Rename(v, name)
		}
		return out
	case slip.Tail:
		return slip.Tail{Value: zzC19Rename(to.Value, name)}
	}
	return obj
}

func zzC19DefForm(name string) (form slip.Object) {
	if fi := slip.FindFunc(name); fi != nil {
		return fi.LoadForm()
	}
	if c := slip.FindClass(name); c != nil {
		if lf, ok := c.(slip.LoadFormer); ok {
			return lf.LoadForm()
		}
	}
	return nil
}

// VerifC19Defs: the load form of a definition, evaluated under a fresh name,
// defines something whose load form is the same list (fixed point). With
// text != 0 the load form first goes through pp.Append (symbolic right
// margin) and the reader, leaves concrete; otherwise leaves are symbolic.
func VerifC19Defs(tmpl int, text int) { zzC19DefsRun(tmpl, text, false) }

// VerifC19Redef: the same for a defun/defmacro that REPLACES an earlier
// definition of the name with another lambda list, documentation string and
// body: the load form (and with it the snapshot) is that of the current
// definition, nothing of the first one.
func VerifC19Redef(tmpl int, text int) { zzC19DefsRun(tmpl, text, true) }

func zzC19DefsRun(tmpl int, text int, redefine bool) {
	t := zzC19Defs[tmpl]
	scope := slip.NewScope()
	u := zzC19Sub{pre: "d", conc: text != 0}
	code := slip.ReadString(t.src, scope)
	if redefine {
		first, _ := code[0].(slip.List)
		head, _ := first[0].(slip.Symbol)
		vrt.Assert(len(first) > 2 && (head == slip.Symbol("defun") || head == slip.Symbol("defmacro")), "case list: template is not a defun/defmacro")
		old := slip.List{head, first[1], slip.List{slip.Symbol("zzold1"), slip.Symbol("zzold2"), slip.Symbol("zzold3"), slip.Symbol("zzold4")},
			slip.String("documentation of the first definition"), slip.List{slip.Symbol("list"), slip.Symbol("zzold1"), slip.Symbol("zzold4")}}
		pre := zzC19Run(func() slip.Object {
			scope.Eval(old, 0)
			if head == slip.Symbol("defun") {
				// call it once so that whatever is cached per definition exists
				scope.Eval(slip.List{first[1], slip.Fixnum(1), slip.Fixnum(2), slip.Fixnum(3), slip.Fixnum(4)}, 0)
			}
			return nil
		})
		vrt.Assert(pre.class == 0, "the first definition does not evaluate")
	}
	vrt.Carve("C19-slotdef-plural-options", tmpl == 8 || tmpl == 15)
	vrt.Carve("C19-pp-doc-underscore-dropped", tmpl == 16 && text != 0)
	vrt.Carve("C19-pp-doc-quote-not-escaped", tmpl == 17 && text != 0)
	vrt.Carve("C19-reader-quote-nil-t", tmpl == 18 && text != 0)
	vrt.Carve("C19-reader-quote-number", tmpl == 19 && text != 0)
	mk := zzC19Run(func() slip.Object {
		for _, f := range code {
			scope.Eval(u.subst(f), 0)
		}
		return nil
	})
	vrt.Assert(mk.class == 0, "the definition itself does not evaluate")
	var form slip.Object
	lf := zzC19Run(func() slip.Object { form = zzC19DefForm(t.name); return nil })
	vrt.Assert(lf.class != 3, "Go run-time fault in LoadForm of a definition")
	vrt.Assert(lf.class == 0 && form != nil, "no load form for a definition")
	form = zzC19Sexp(form)
	if text != 0 {
		margin := zzC19Margin()
		// a documentation string that does not fit is wrapped inside the literal
		vrt.Carve("C19-pp-doc-wrapped", margin < zzC19DocFit[tmpl])
		zzC19TextTrip(form, margin, true)
	}
	renamed := zzC19Rename(form, t.name)
	// evaluate a separate copy: defun compiles the body lists in place
	re := zzC19Run(func() slip.Object { return slip.NewScope().Eval(zzC19Rename(form, t.name), 0) })
	vrt.Reach("reloaded")
	vrt.Assert(re.class != 3, "Go run-time fault evaluating the load form of a definition")
	vrt.Assert(re.class == 0, "the load form of a definition does not evaluate")
	var form2 slip.Object
	lf2 := zzC19Run(func() slip.Object { form2 = zzC19DefForm(t.name + "-r"); return nil })
	vrt.Assert(lf2.class == 0 && form2 != nil, "no load form for the reloaded definition")
	vrt.Assert(zzC19Same(zzC19Sexp(form2), renamed), "load form of the reloaded definition differs (no fixed point)")
	if 0 <= t.nargs && text == 0 {
		args := make(slip.List, t.nargs+1)
		for i := 0; i < t.nargs; i++ {
			a := vrt.Int64("arg" + strconv.Itoa(i))
			vrt.Assume(-1000000 < a && a < 1000000)
			args[i+1] = slip.Fixnum(a)
		}
		args[0] = slip.Symbol(t.name)
		r1 := zzC19Run(func() slip.Object { return slip.NewScope().Eval(append(slip.List{}, args...), 0) })
		args[0] = slip.Symbol(t.name + "-r")
		r2 := zzC19Run(func() slip.Object { return slip.NewScope().Eval(append(slip.List{}, args...), 0) })
		vrt.Assert(r1.class != 3 && r2.class != 3, "Go run-time fault calling a defined function")
		vrt.Assert(r1.class == r2.class, "original and reloaded function: one signals, the other does not")
		if r1.class == 0 {
			vrt.Assert(slip.ObjectEqual(r1.val, r2.val), "original and reloaded function return different values")
		}
	}
}

// ---------------------------------------------------------------------------
// inheritance chains of depth 3 whose leaf overrides an inherited default
// ---------------------------------------------------------------------------

type zzC19FamT struct {
	src    string
	family []string // top, mid, leaf (definition order); every name starts with the leaf name
	get    string   // template of the form that reads x from a fresh instance, %s = class name
}

var zzC19Fams = []zzC19FamT{
	/* 0: flavors, leaf default given by $x2 */
	{`(defflavor zzc19w-top ((x $x0) (y $i)) () :gettable-instance-variables)
	  (defflavor zzc19w-mid ((x $x1)) (zzc19w-top) :gettable-instance-variables)
	  (defflavor zzc19w ((x $x2) (z $s)) (zzc19w-mid) :gettable-instance-variables)`,
		[]string{"zzc19w-top", "zzc19w-mid", "zzc19w"}, "(send (make-instance (quote %s)) :x)"},
	/* 1: classes, initforms */
	{`(defclass zzc19y-top () ((x :initform $x0 :initarg :x) (y :initform $i)))
	  (defclass zzc19y-mid (zzc19y-top) ((x :initform $x1)))
	  (defclass zzc19y (zzc19y-mid) ((x :initform $x2) (z :initform $s)))`,
		[]string{"zzc19y-top", "zzc19y-mid", "zzc19y"}, "(slot-value (make-instance (quote %s)) (quote x))"},
	/* 2: flavors, the middle flavor does not mention x, the leaf overrides the grandparent */
	{`(defflavor zzc19x-top ((x $x0)) () :gettable-instance-variables)
	  (defflavor zzc19x-mid ((w $x1)) (zzc19x-top) :gettable-instance-variables)
	  (defflavor zzc19x ((x $x2)) (zzc19x-mid) :gettable-instance-variables)`,
		[]string{"zzc19x-top", "zzc19x-mid", "zzc19x"}, "(send (make-instance (quote %s)) :x)"},
	/* 3: flavors, two parents: the first one without x, the second with the grandparent chain */
	{`(defflavor zzc19z-top ((x $x0)) () :gettable-instance-variables)
	  (defflavor zzc19z-mid ((x $x1)) (zzc19z-top) :gettable-instance-variables)
	  (defflavor zzc19z-mix ((m $i)) () :gettable-instance-variables)
	  (defflavor zzc19z ((x $x2)) (zzc19z-mix zzc19z-mid) :gettable-instance-variables)`,
		[]string{"zzc19z-top", "zzc19z-mid", "zzc19z-mix", "zzc19z"}, "(send (make-instance (quote %s)) :x)"},
}

func zzC19Fmt(tmpl, name string) string {
	out := ""
	for i := 0; i < len(tmpl); i++ {
		if tmpl[i] == '%' && i+1 < len(tmpl) && tmpl[i+1] == 's' {
			out += name
			i++
		} else {
			out += string(tmpl[i])
		}
	}
	return out
}

// zzC19HasDefault: does the variable/slot list of a defflavor/defclass load
// form give x the default v?  (x v) for flavors, (x ... :initform v ...) for classes.
func zzC19HasDefault(form slip.Object, v int64) bool {
	list, ok := form.(slip.List)
	if !ok || len(list) < 4 {
		return false
	}
	for _, pos := range []int{2, 3} {
		vars, _ := list[pos].(slip.List)
		for _, e := range vars {
			el, isList := e.(slip.List)
			if !isList || len(el) < 2 {
				continue
			}
			if sym, isSym := el[0].(slip.Symbol); !isSym || string(sym) != "x" {
				continue
			}
			if len(el) == 2 {
				if f, isFix := el[1].(slip.Fixnum); isFix && int64(f) == v {
					return true
				}
			}
			for i := 1; i+1 < len(el); i++ {
				if el[i] == slip.Symbol(":initform") {
					if f, isFix := el[i+1].(slip.Fixnum); isFix && int64(f) == v {
						return true
					}
				}
			}
		}
	}
	return false
}

// zzC19HasFloatDefault: the same for a double-float default.
func zzC19HasFloatDefault(form slip.Object, v float64) bool {
	list, ok := form.(slip.List)
	if !ok || len(list) < 4 {
		return false
	}
	for _, pos := range []int{2, 3} {
		vars, _ := list[pos].(slip.List)
		for _, e := range vars {
			el, isList := e.(slip.List)
			if !isList || len(el) < 2 {
				continue
			}
			if sym, isSym := el[0].(slip.Symbol); !isSym || string(sym) != "x" {
				continue
			}
			if len(el) == 2 {
				if f, isD := el[1].(slip.DoubleFloat); isD && float64(f) == v {
					return true
				}
			}
			for i := 1; i+1 < len(el); i++ {
				if el[i] == slip.Symbol(":initform") {
					if f, isD := el[i+1].(slip.DoubleFloat); isD && float64(f) == v {
						return true
					}
				}
			}
		}
	}
	return false
}

// VerifC19DefsFamily: a chain top <- mid <- leaf where every level gives the
// variable/slot x its own default. rel 0: leaf default == top default != mid
// default; rel 1: three distinct defaults; rel 2: leaf default == mid default
// != top default. The load form of every member is taken, (text != 0: sent
// through pp.Append with a symbolic margin and the reader,) renamed, evaluated
// in definition order; each reloaded member must have the renamed load form
// (fixed point), the leaf's load form must still state its own default
// (rel 0 and 1), and a fresh instance of every original and every reloaded
// member must have x = the default that member declares.
func VerifC19DefsFamily(tmpl int, rel int, text int) {
	t := zzC19Fams[tmpl]
	leaf := t.family[len(t.family)-1]
	var xv [3]int64
	if text != 0 {
		xv = [5][3]int64{{1, 2, 1}, {1, 2, 3}, {1, 2, 2}, {1, 2, 3}, {1, 2, 2}}[rel]
		if rel == 4 && tmpl == 2 {
			xv = [3]int64{2, 1, 2}
		}
	} else if rel == 4 {
		// floats are concrete in the engine
		xv = [3]int64{1, 2, 2}
		if tmpl == 2 {
			xv = [3]int64{2, 1, 2}
		}
	} else {
		for i := 0; i < 3; i++ {
			xv[i] = vrt.Int64("fx" + strconv.Itoa(i))
			vrt.Assume(-1000000 < xv[i] && xv[i] < 1000000)
		}
		switch rel {
		case 0:
			vrt.Assume(xv[2] == xv[0] && xv[1] != xv[0])
		case 1, 3:
			vrt.Assume(xv[0] != xv[1] && xv[1] != xv[2] && xv[0] != xv[2])
		case 2:
			vrt.Assume(xv[2] == xv[1] && xv[1] != xv[0])
		}
	}
	u := zzC19Sub{pre: "f", conc: text != 0, xs: []slip.Object{slip.Fixnum(xv[0]), slip.Fixnum(xv[1]), slip.Fixnum(xv[2])}}
	if rel == 4 {
		// relation 4: the leaf's default has the VALUE of the default it would
		// inherit but another type (double-float 2.0 over fixnum 2): = and equalp
		// hold, the load form still has to state it and a reloaded instance
		// has to get a double-float
		u.xs[2] = slip.DoubleFloat(float64(xv[2]))
	}
	if rel == 3 { // relation 3: the defaults are the forms (list X0), (list X1), (list X2)
		for i := range u.xs {
			u.xs[i] = slip.List{slip.Symbol("list"), u.xs[i]}
		}
	}
	// Flavor.inheritedVar compares the default objects with ==: two list defaults panic
	vrt.Carve("C19-flavor-load-form-list-default-panics", rel == 3 && tmpl != 1)
	scope := slip.NewScope()
	code := slip.ReadString(t.src, scope)
	mk := zzC19Run(func() slip.Object {
		for _, f := range code {
			scope.Eval(u.subst(f), 0)
		}
		return nil
	})
	vrt.Assert(mk.class == 0, "the family definition itself does not evaluate")
	forms := make([]slip.Object, len(t.family))
	lf := zzC19Run(func() slip.Object {
		for i, name := range t.family {
			forms[i] = zzC19Sexp(zzC19DefForm(name))
		}
		return nil
	})
	vrt.Assert(lf.class != 3, "Go run-time fault in LoadForm of a family member")
	vrt.Assert(lf.class == 0, "LoadForm of a family member signals")
	for _, f := range forms {
		vrt.Assert(f != nil, "no load form for a family member")
	}
	// the value x would have without the leaf's own declaration: the nearest
	// ancestor's (family 2: the middle flavor has no x of its own, so the top's)
	nearest := xv[1]
	if tmpl == 2 {
		nearest = xv[0]
	}
	if rel == 4 {
		vrt.Assert(zzC19HasFloatDefault(forms[len(forms)-1], float64(xv[2])), "the load form of the leaf lost the default the leaf declares (same value as the inherited one, other type)")
	}
	if xv[2] != nearest && rel != 3 && rel != 4 {
		vrt.Assert(zzC19HasDefault(forms[len(forms)-1], xv[2]), "the load form of the leaf lost the default the leaf declares")
	}
	if text != 0 {
		margin := zzC19Margin()
		for _, f := range forms {
			zzC19TextTrip(f, margin, true)
		}
	}
	re := zzC19Run(func() slip.Object {
		s2 := slip.NewScope()
		for _, f := range forms {
			s2.Eval(zzC19Rename(f, leaf), 0)
		}
		return nil
	})
	vrt.Reach("reloaded")
	vrt.Assert(re.class != 3, "Go run-time fault evaluating the load forms of a family")
	vrt.Assert(re.class == 0, "the load forms of a family do not evaluate")
	for i, name := range t.family {
		rn := string(zzC19Rename(slip.Symbol(name), leaf).(slip.Symbol))
		var form2 slip.Object
		lf2 := zzC19Run(func() slip.Object { form2 = zzC19Sexp(zzC19DefForm(rn)); return nil })
		vrt.Assert(lf2.class == 0 && form2 != nil, "no load form for a reloaded family member")
		vrt.Assert(zzC19Same(form2, zzC19Rename(forms[i], leaf)), "load form of a reloaded family member differs (no fixed point)")
	}
	// behaviour: x of a fresh instance of top, mid and leaf, original and reloaded
	level := map[string]int{t.family[0]: 0, t.family[1]: 1, leaf: 2}
	for _, name := range t.family {
		lv, has := level[name]
		if !has {
			continue
		}
		want := xv[lv]
		if tmpl == 2 && lv == 1 {
			want = xv[0] // the middle flavor of family 2 inherits x from the top
		}
		for _, nm := range []string{name, string(zzC19Rename(slip.Symbol(name), leaf).(slip.Symbol))} {
			get := slip.ReadString(zzC19Fmt(t.get, nm), scope)
			r := zzC19Run(func() slip.Object { return get.Eval(slip.NewScope(), nil) })
			vrt.Assert(r.class != 3, "Go run-time fault reading x of an instance")
			vrt.Assert(r.class == 0, "reading x of a fresh instance signals")
			got := r.val
			if l, isList := got.(slip.List); rel == 3 && isList && len(l) == 1 {
				got = l[0] // relation 3: the value of (list X) is (X)
			} else if rel == 3 {
				got = nil
			}
			if rel == 4 && lv == 2 {
				d, isD := got.(slip.DoubleFloat)
				vrt.Assert(isD && float64(d) == float64(want), "a fresh instance does not have the double-float default its flavor/class declares for x")
				continue
			}
			f, isFix := got.(slip.Fixnum)
			vrt.Assert(isFix && int64(f) == want, "a fresh instance does not have the default its flavor/class declares for x")
		}
	}
	vrt.Reach("behaved")
}

// ---------------------------------------------------------------------------
// the variable part of a snapshot: (setq pkg::name <ppValue(value)>)
// ---------------------------------------------------------------------------

// VerifC19SnapVar: the setq form the snapshot writes for a variable holding
// the value of the given shape restores an Equal value. text == 0: symbolic
// leaves, the form is evaluated directly (shapes of zzC19Shapes); text != 0:
// concrete leaves, through pp.Append and the reader (zzC19TextShapes).
func VerifC19SnapVar(shape int, text int) {
	var g zzC19Gen
	if text == 0 {
		g = zzC19Gen{src: zzC19Shapes[shape]}
	} else {
		g = zzC19Gen{src: zzC19TextShapes[shape], conc: true}
	}
	x := g.value()
	_, isSym := x.(slip.Symbol)
	vrt.Carve("C19-snapshot-symbol-value-unquoted", isSym && x.(slip.Symbol)[0] != ':')
	// without text the value sits in the form as a literal object; through text a
	// hash table is written by its load form and a vector as #( ... )
	vrt.Carve("C19-hash-table-value-not-quoted", text != 0 && g.htBadVal)
	vrt.Carve("C19-snapshot-unreadable-in-quoted-list", text != 0 && g.htNested)
	vrt.Carve("C19-array-not-adjustable-lost", text != 0 && g.nonAdjVec)
	// the snapshot writes a vector as the literal #( ... ), not by its load form
	vrt.Carve("C19-snapshot-vector-literal-adjustable", text != 0 && g.nonAdjVec)
	scope := slip.NewScope()
	name := slip.Symbol("zzc19-snap-var")
	slip.ReadString("(defvar zzc19-snap-var nil)", scope).Eval(scope, nil)
	vv := slip.UserPkg.GetVarVal(string(name))
	vrt.Assert(vv != nil, "defvar did not intern the variable")
	vv.Val = x
	var form slip.Object
	if text == 0 {
		form = slip.List{slip.Symbol("setq"), slip.Symbol("common-lisp-user::zzc19-snap-var"), ppValue(vv.Value())}
	} else {
		b := appendSetq(nil, scope, vv)
		var code slip.Code
		rd := zzC19Run(func() slip.Object { code = slip.Read(b, slip.NewScope()); return nil })
		vrt.Assert(rd.class == 0 && len(code) == 1, "the setq form of the snapshot is not readable")
		form = code[0]
		if !g.multiHT {
			vrt.Note("text", strconv.Quote(string(b)))
		}
	}
	vv.Val = nil
	out := zzC19Run(func() slip.Object { return slip.NewScope().Eval(form, 0) })
	vrt.Reach("compared")
	vrt.Assert(out.class != 3, "Go run-time fault evaluating the snapshot setq")
	vrt.Assert(out.class == 0, "evaluating the snapshot setq signals")
	got := vv.Value()
	vrt.Assert(zzC19Type(x) == zzC19Type(got), "restored variable value has another type")
	vrt.Assert(slip.ObjectEqual(x, got), "restored variable value is not Equal to the saved one")
}

// ---------------------------------------------------------------------------
// flavor methods: the defmethod list a flavor hands out (what the snapshot
// and pp.Append of flavor:method use)
// ---------------------------------------------------------------------------

type zzC19MethT struct {
	src    string
	flavor string
	method string
	daemon string
}

var zzC19Meths = []zzC19MethT{
	/* 0 */ {`(defflavor zzc19va ((a $i)) ()) (defmethod (zzc19va :foo) (x) $d (+ x a $i))`, "zzc19va", ":foo", ":primary"},
	/* 1 */ {`(defflavor zzc19vb ((a $i) b) ()) (defmethod (zzc19vb :foo) (x) (list x)) (defmethod (zzc19vb :before :foo) (x) (setq b (list x $s)))`, "zzc19vb", ":foo", ":before"},
	/* 2 */ {`(defflavor zzc19vc (a) ()) (defmethod (zzc19vc :after :bar) (x &optional (y $i)) $d (setq a (+ x y)))`, "zzc19vc", ":bar", ":after"},
	/* 3 */ {`(defflavor zzc19vd (a) ()) (defmethod (zzc19vd :bar) (&rest r) (let ((n (length r))) (cond ((< n $i) r) (t (list n $s)))))`, "zzc19vd", ":bar", ":primary"},
}

type zzC19HasDML interface {
	DefMethodList(method, daemon string, inherited bool) slip.List
}

func zzC19MethForm(flavor, method, daemon string) slip.Object {
	c, _ := slip.FindClass(flavor).(zzC19HasDML)
	if c == nil {
		return nil
	}
	dml := c.DefMethodList(method, daemon, false)
	if dml == nil {
		return nil
	}
	return dml
}

// VerifC19FlavorMethod: the defmethod form a flavor gives for one of its
// methods, evaluated for a renamed copy of the flavor, yields the same form
// again; text != 0: concrete leaves, through pp.Append (symbolic margin) and
// the reader first.
func VerifC19FlavorMethod(tmpl int, text int) {
	t := zzC19Meths[tmpl]
	scope := slip.NewScope()
	u := zzC19Sub{pre: "m", conc: text != 0}
	code := slip.ReadString(t.src, scope)
	mk := zzC19Run(func() slip.Object {
		for _, f := range code {
			scope.Eval(u.subst(f), 0)
		}
		return nil
	})
	vrt.Assert(mk.class == 0, "the flavor definition itself does not evaluate")
	fl := zzC19Sexp(zzC19DefForm(t.flavor))
	form := zzC19Sexp(zzC19MethForm(t.flavor, t.method, t.daemon))
	vrt.Assert(fl != nil && form != nil, "no defmethod form for a defined method")
	if text != 0 {
		zzC19TextTrip(form, zzC19Margin(), true)
	}
	renamed := zzC19Rename(form, t.flavor)
	re := zzC19Run(func() slip.Object {
		s2 := slip.NewScope()
		s2.Eval(zzC19Rename(fl, t.flavor), 0)
		return s2.Eval(zzC19Rename(form, t.flavor), 0)
	})
	vrt.Reach("reloaded")
	vrt.Assert(re.class != 3, "Go run-time fault evaluating a defmethod form")
	vrt.Assert(re.class == 0, "the defmethod form of a flavor method does not evaluate")
	form2 := zzC19Sexp(zzC19MethForm(t.flavor+"-r", t.method, t.daemon))
	vrt.Assert(form2 != nil, "the reloaded flavor has no such method")
	vrt.Assert(zzC19Same(form2, renamed), "defmethod form of the reloaded method differs (no fixed point)")
}
