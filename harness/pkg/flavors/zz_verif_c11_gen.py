#!/usr/bin/env python3
"""Generates /verif/harness/obligations.d/C11.json (case lists of the C11 obligations).

Encoding of the parameters (see zz_verif_c11.go):
  shape  mixed radix, digit i (radix cnt(i)) = index of flavor i's ordered component list among the
         lists of <= 3 distinct earlier flavors (shortest first, lexicographic)
  masks  base 16, digit i = daemons of flavor i (1 primary, 2 :before, 4 :after, 8 whopper)
  msg    0 custom message, 1 :init (vanilla-flavor's primary takes part)
  ord    -1 every admissible order of the forms (vrt.Choice); k >= 0: four pseudo-random orders (numbers 4k..4k+3,
         the odd ones drawn among the orders outside the insertMethod finding regions)
"""
import itertools
import json
import random

OUT = "/verif/harness/obligations.d/C11.json"


def cnt(i):
    return 1 + i + i * (i - 1) + i * (i - 1) * (i - 2)


def lists(i):
    out = [[]]
    out += [[a] for a in range(i)]
    out += [[a, b] for a in range(i) for b in range(i) if a != b]
    out += [[a, b, c] for a in range(i) for b in range(i) for c in range(i) if a != b and a != c and b != c]
    return out


def shape_of(comps):
    """comps: list (per flavor) of component lists -> shape number"""
    s, mul = 0, 1
    for i, cl in enumerate(comps):
        s += lists(i).index(list(cl)) * mul
        mul *= cnt(i)
    return s


def all_shapes(n, maxcomp=3):
    per = [[l for l in lists(i) if len(l) <= maxcomp] for i in range(n)]
    return [shape_of(c) for c in itertools.product(*per)]


def masks_of(ms):
    return sum(m << (4 * i) for i, m in enumerate(ms))


def connected_top(n, shape):
    """does the last flavor inherit (transitively) from at least one other flavor"""
    comps = []
    for i in range(n):
        comps.append(lists(i)[shape % cnt(i)])
        shape //= cnt(i)
    return len(comps[n - 1]) > 0


rnd = random.Random(11)

# ---------------- C11.send ----------------
send_q, send_t = [], []
conn3 = [sh for sh in all_shapes(3) if connected_top(3, sh)]
wide4 = shape_of([[], [], [], [0, 1, 2]])
chain4 = shape_of([[], [0], [1], [2]])
diamond4 = shape_of([[], [0], [0], [1, 2]])
# 3 flavors, 3 methods, every order
for k, sh in enumerate(all_shapes(3)):
    send_q.append([3, sh, masks_of([(2, 2, 1), (4, 1, 2)][k % 2]), 0, -1])
# 3 flavors, <= 4 methods, 4 sampled orders each
q3 = [(4, 4, 4), (3, 4, 8), (8, 8, 8)]
for sh in all_shapes(3):
    for ms in q3:
        send_q.append([3, sh, masks_of(ms), 0, 0])
# whoppers on flavors that are not neighbours in the precedence list (a flavor with only daemons, or with
# nothing for the message, in between): continue-whopper has to find the next whopper across the gap
chain3 = shape_of([[], [0], [1]])
gap = [[3, chain3, masks_of((9, 2, 8)), 0, -1], [3, chain3, masks_of((8, 1, 8)), 0, 0], [3, chain3, masks_of((9, 0, 8)), 0, 0],
       [3, shape_of([[], [], [0, 1]]), masks_of((2, 9, 8)), 0, 0], [4, wide4, masks_of((8, 6, 9, 0)), 0, 0],
       [4, chain4, masks_of((9, 4, 2, 8)), 0, 0], [4, wide4, masks_of((8, 0, 0, 9)), 0, 1]]
send_q += gap
# :init (vanilla-flavor's primary is part of the table), every order
for sh in conn3:
    for ms in [(2, 2, 0), (1, 0, 2)]:
        send_q.append([3, sh, masks_of(ms), 1, -1])
for sh in all_shapes(2):
    for ms in [(3, 4), (9, 8)]:
        send_q.append([2, sh, masks_of(ms), 0, -1])
        send_q.append([2, sh, masks_of(ms), 1, -1])
# sampled orders of 4-flavor programs (the aliasing append needs 4 flavors)
for sh in (wide4, chain4, diamond4):
    for ms in [(2, 2, 2, 1), (4, 1, 2, 8)]:
        send_q.append([4, sh, masks_of(ms), 0, 0])

send_t += send_q
for sh in all_shapes(3):
    send_t.append([3, sh, masks_of((9, 8, 0)), 0, 0])
for sh in all_shapes(2):
    for ms in [(7, 0), (0, 11)]:
        send_t.append([2, sh, masks_of(ms), 0, -1])
        send_t.append([2, sh, masks_of(ms), 1, -1])
for k, sh in enumerate(all_shapes(3)):
    send_t.append([3, sh, masks_of([(2, 2, 1), (4, 1, 2)][(k + 1) % 2]), 0, -1])
# 3 flavors: single-daemon assignments, every order
for sh in conn3:
    for ms in rnd.sample(list(itertools.product((1, 2, 4, 8), repeat=3)), 16):
        c = [3, sh, masks_of(ms), 0, -1]
        if c not in send_t:
            send_t.append(c)
# 3 flavors, 4 methods, every order
for sh in conn3:
    for ms in [(3, 4, 8), (2, 5, 2)]:
        send_t.append([3, sh, masks_of(ms), 0, -1])
    for ms in [(1, 1, 1), (8, 2, 1), (4, 4, 1)]:
        send_t.append([3, sh, masks_of(ms), 1, -1])
# 4 flavors: every shape (<= 3 components each), 2 daemon assignments x 4 sampled orders, 1 x 4 for :init
pool4 = [(2, 2, 2, 1), (4, 1, 2, 8), (1, 4, 4, 4), (8, 8, 1, 2), (3, 0, 6, 8), (2, 4, 8, 1), (1, 1, 2, 2), (9, 2, 4, 0)]
for sh in all_shapes(4):
    for ms in rnd.sample(pool4, 2):
        send_t.append([4, sh, masks_of(ms), 0, rnd.randrange(50)])
    if sh % 2 == 0:
        send_t.append([4, sh, masks_of(rnd.choice(pool4)), 1, rnd.randrange(50)])
# 4 flavors: every order for three typical shapes, 3 methods
for sh, ms in ((wide4, (2, 2, 2, 0)), (chain4, (4, 1, 2, 0)), (diamond4, (1, 2, 0, 4))):
    send_t.append([4, sh, masks_of(ms), 0, -1])
# 5 flavors: sampled shapes, 4 sampled orders
sh5 = all_shapes(5)
pool5 = [(2, 2, 2, 2, 1), (4, 1, 2, 8, 2), (1, 4, 4, 4, 4), (8, 8, 1, 2, 4), (3, 0, 6, 8, 1), (2, 4, 8, 1, 0)]
for sh in rnd.sample(sh5, 200):
    send_t.append([5, sh, masks_of(rnd.choice(pool5)), 0, rnd.randrange(50)])

# ---------------- C11.bound ----------------
bound_q, bound_t = [], []
for k, sh in enumerate(conn3):
    for ms in [(6, 6, 1), (4, 0, 5), (8, 1, 2), (9, 8, 8)][k % 2::2]:
        bound_q.append([3, sh, masks_of(ms), 0])
for sh in all_shapes(2):
    for ms in [(6, 4), (3, 2), (9, 4), (1, 4)]:
        bound_q.append([2, sh, masks_of(ms), -1])
bound_t += bound_q
for sh in all_shapes(3):
    for ms in rnd.sample(list(itertools.product((1, 2, 4, 8), repeat=3)), 10):
        bound_t.append([3, sh, masks_of(ms), 0])
for sh in all_shapes(4):
    if sh % 2 == 1:
        bound_t.append([4, sh, masks_of(rnd.choice(pool4)), rnd.randrange(50)])

# ---------------- C11.vars ----------------
vars_q, vars_t = [], []


def rand_decl_opts(n):
    decl, opts = 0, 0
    for i in range(n):
        vk = rnd.choice((0, 1, 1, 1, 2))
        op = rnd.randrange(32)
        decl += vk * 3 ** i
        opts += op * 32 ** i
    return decl, opts


cur3 = [((1, 1, 1), (15, 0, 0)), ((1, 0, 1), (1, 0, 2)), ((1, 1, 0), (8, 8, 16)), ((2, 1, 1), (1, 4, 16)),
        ((1, 2, 0), (7, 0, 0)), ((1, 1, 1), (4, 20, 16)), ((0, 1, 0), (0, 3, 8))]
for sh in all_shapes(3):
    for vk, op in cur3:
        vars_q.append([3, sh, sum(v * 3 ** i for i, v in enumerate(vk)), sum(o * 32 ** i for i, o in enumerate(op)), -1])
    d, o = rand_decl_opts(3)
    vars_q.append([3, sh, d, o, -1])
vars_t += vars_q
for sh in all_shapes(3):
    for _ in range(20):
        d, o = rand_decl_opts(3)
        vars_t.append([3, sh, d, o, -1])
for sh in all_shapes(4):
    for _ in range(2):
        d, o = rand_decl_opts(4)
        vars_t.append([4, sh, d, o, -1])
for sh in rnd.sample(sh5, 100):
    d, o = rand_decl_opts(5)
    vars_t.append([5, sh, d, o, rnd.randrange(50)])

common = {"property": "C11", "pkg": "pkg/flavors", "max_depth": 400, "max_steps": 400000000, "solver_timeout_ms": 60000}
vals = ("Symbolic: the default of every flavor's own instance variable, the constant added by every primary and by "
        "every whopper (value of send = first primary's variable + constant + constants of the whoppers that ran), all "
        "fixnums with |v| < 2^20 (no overflow of the sums). Concrete per case: the DAG (shape), which daemons each flavor "
        "defines (masks), the message. The ORDER of the defflavor/defmethod/defwhopper forms is chosen by the engine "
        "(vrt.Choice over the enabled forms at every step: every order that respects components-before-users and "
        "flavor-before-its-methods) when ord = -1; when ord >= 0 the case runs four pseudo-random orders (numbers 4*ord..4*ord+3, "
        "mixed with VERIF_SEED; the odd ones are rejection-sampled among the orders outside the two insertMethod regions, so "
        "that sampled cases of larger programs are not all cut by the carve-outs). ")
regions = ("Known-finding regions are delimited with a 40-line replica of insertMethod's placement walk and of inheritFlavor's list "
           "copy applied to lists of flavor indexes (zzC11Replica; used for the carve predicates and for biasing sampled "
           "orders only, the oracle is the component order computed from the written DAG). The regions are per flavor: when "
           "the replica predicts a misordered table for some flavors of a program the path is split (vrt.Choice part): part 0 "
           "checks every flavor whose table is predicted in component order, part 1 checks the others and lies in "
           "C11-vanilla-before-components (if at some defflavor of the program the copied lists put vanilla-flavor's entry in "
           "front of a later component's entry; message :init only) or else in C11-insert-position. The former regions "
           "C11-insert-alias, C11-whopper-skip and C11-bound-after-forward are fixed in /repo and fully asserted. ")
specs = [
    dict(common, id="C11.send", entry="VerifC11Send", cases={"quick": send_q, "thorough": send_t}, reach=["sent"],
         carves=["C11-vanilla-before-components", "C11-insert-position"],
         note="Real defflavor/defmethod/defwhopper/continue-whopper/make-instance/send evaluated through the registry for a DAG "
              "of n flavors. Quick: the 10 shapes of 3 flavors x (one 3-method assignment x EVERY order + 3 assignments of <= 4 "
              "methods x 4 sampled orders), the 7 connected 3-flavor shapes x 2 assignments on :init x every order, both 2-flavor "
              "shapes x 2 assignments x 2 messages x every order, 3 shapes of 4 flavors (wide, chain, diamond) x 2 assignments x 4 "
              "sampled orders. Thorough adds: 7 connected 3-flavor shapes x (16 single-daemon assignments + 2 four-method "
              "assignments + 3 :init assignments) x every order, all 160 shapes of 4 flavors (<= 3 components each) x 2 "
              "assignments x 4 sampled orders (+ :init for half of them), three 4-flavor shapes x every order, 200 sampled "
              "5-flavor shapes x 4 sampled orders. Asserted for an instance of EVERY flavor: "
              "the method table (From list, daemons per entry) and Flavor.Precedence equal the component order; the trace of "
              "(send inst msg nil) = whoppers outermost first, :before in order, first primary, :after reversed, whopper exits; "
              "the returned value; (send inst :v<i>) for every inherited variable. msg=1 uses :init, where vanilla-flavor's "
              "primary is last in precedence. " + vals + regions,
         assumptions=["|symbolic fixnum| < 2^20", "orders of 4- and 5-flavor programs are sampled, not exhaustive (except three 4-flavor shapes)"]),
    dict(common, id="C11.bound", entry="VerifC11Bound", cases={"quick": bound_q, "thorough": bound_t}, reach=["sent"],
         carves=["C11-insert-position"],
         note="Same programs and oracle, but the message is delivered through the Go API Instance.BoundReceive "
              "(Method.BoundCall/BoundInnerCall) with the argument bound in a scope; custom message only (vanilla's callers are "
              "not BoundCallers). " + vals + regions,
         assumptions=["|symbolic fixnum| < 2^20"]),
    dict(common, id="C11.vars", entry="VerifC11Vars", cases={"quick": vars_q, "thorough": vars_t}, reach=["made"],
         carves=["C11-initable-not-inherited"],
         note="Instance variables, accessors and init keywords: per flavor (concrete per case) the shared variable x is not "
              "declared / declared with a symbolic default / declared without default, options gettable x, settable x, "
              "x initable, (:default-init-plist (:zzk k_i)), own variable initable; every flavor also has an own variable "
              "with a symbolic default. Every admissible order of the defflavor forms (ord=-1) or a pseudo-random one. "
              "Asserted for an instance of every flavor: own variables of all components present with their defaults; x "
              "present iff declared by a component, value = the default of the FIRST DECLARATION in component order (nil when that "
              "declaration is a bare x: slip gives every declared variable the default nil); (send inst :x) "
              "works iff some component declares it gettable and returns that value, else signals; (send inst :set-x v) "
              "likewise and sets x; (make-instance f :x v) accepted and effective when some component declares x initable; "
              "own initable variable initable; Flavor.keywords[:zzk] = first in component order and (make-instance f :zzk v) "
              "accepted iff declared by a component. Symbolic: all defaults, k_i, v (|v| < 2^20). Not asserted: rejection "
              "of :x when no component declares x initable (slip treats an empty initable set as 'all initable'). "
              "Region (fixed, asserted): C11-initable-not-inherited = x initable only through a component while the flavor has an own "
              "non-empty initable list without x. The former carve C11-undefaulted-var-shadows-default (a bare x in front of a "
              "component's default) was a false alarm and is gone: the reference now takes the first declaration.",
         assumptions=["|symbolic fixnum| < 2^20"]),
]
json.dump(specs, open(OUT, "w"), indent=0)
for s in specs:
    print(s["id"], {k: len(v) for k, v in s["cases"].items()})
