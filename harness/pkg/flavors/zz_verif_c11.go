package flavors

// C11 — flavor inheritance and daemon order follow component order, whatever
// the definition history.
//
// The harness defines a small DAG of flavors and the daemons of one message
// through the real defflavor / defmethod / defwhopper forms, in an order that
// is chosen by the engine (vrt.Choice) or by a case parameter, then sends the
// message to an instance of every flavor and compares the trace, the returned
// value and the instance variables with an oracle computed from the *written*
// DAG only (Appendix F, C11).

import (
	"os"
	"strconv"

	"github.com/ohler55/slip"
	vrt "github.com/ohler55/slip/zzvrt"
)

const (
	zzC11Primary = 0
	zzC11Before  = 1
	zzC11After   = 2
	zzC11WhopIn  = 3
	zzC11WhopOut = 4

	zzC11Vanilla = 99 // pseudo flavor index of vanilla-flavor in oracle lists
)

var zzC11Seq int

// zzC11Case is the written program: flavors 0..n-1, flavor i lists comps[i]
// (earlier flavors, in written order), mask[i] says which daemons flavor i
// defines for the message (bit 0 primary, 1 :before, 2 :after, 3 whopper).
type zzC11Case struct {
	n     int
	comps [][]int
	mask  []int
	msg   string // the message; ":init" brings the vanilla-flavor primary into play
	names []string
	dflt  []int64 // default of variable v<i> declared by flavor i
	pc    []int64 // constant added by the primary of flavor i
	wc    []int64 // constant added by the whopper of flavor i
	scope *slip.Scope
}

// zzC11Op is one definition form of the history.
type zzC11Op struct {
	fl   int
	kind int // -1 defflavor, else daemon bit number 0..3
}

// zzC11Lists enumerates the ordered lists of at most 3 distinct flavors taken
// from 0..i-1, shortest first, and returns list number idx.
func zzC11Lists(i, idx int) []int {
	k := 0
	if idx == k {
		return nil
	}
	k++
	for a := 0; a < i; a++ {
		if idx == k {
			return []int{a}
		}
		k++
	}
	for a := 0; a < i; a++ {
		for b := 0; b < i; b++ {
			if b == a {
				continue
			}
			if idx == k {
				return []int{a, b}
			}
			k++
		}
	}
	for a := 0; a < i; a++ {
		for b := 0; b < i; b++ {
			for c := 0; c < i; c++ {
				if b == a || c == a || c == b {
					continue
				}
				if idx == k {
					return []int{a, b, c}
				}
				k++
			}
		}
	}
	return nil
}

func zzC11ListCount(i int) int {
	return 1 + i + i*(i-1) + i*(i-1)*(i-2)
}

// zzC11Decode builds the written program from the case parameters.
func zzC11Decode(n, shape, masks, msg int) *zzC11Case {
	zzC11Seq++
	c := &zzC11Case{n: n, msg: ":zzc11m"}
	if msg == 1 {
		c.msg = ":init"
	}
	for i := 0; i < n; i++ {
		cnt := zzC11ListCount(i)
		c.comps = append(c.comps, zzC11Lists(i, shape%cnt))
		shape /= cnt
		c.mask = append(c.mask, masks%16)
		masks /= 16
		c.names = append(c.names, "zzc11f"+strconv.Itoa(zzC11Seq)+"x"+strconv.Itoa(i))
		si := strconv.Itoa(i)
		// 32-bit symbolic values: the sums below cannot overflow a fixnum
		d := int64(vrt.Int32("d" + si))
		p := int64(vrt.Int32("p" + si))
		w := int64(vrt.Int32("w" + si))
		c.dflt = append(c.dflt, d)
		c.pc = append(c.pc, p)
		c.wc = append(c.wc, w)
	}
	c.scope = slip.NewScope()
	return c
}

// ---- oracle (from the written DAG only) ----

// zzC11Prec is the component precedence of flavor i: the flavor itself, then
// the precedence of each component in written order, first occurrence kept.
func (c *zzC11Case) zzC11Prec(i int) []int {
	out := []int{i}
	for _, k := range c.comps[i] {
		for _, f := range c.zzC11Prec(k) {
			dup := false
			for _, g := range out {
				if g == f {
					dup = true
				}
			}
			if !dup {
				out = append(out, f)
			}
		}
	}
	return out
}

func (c *zzC11Case) zzC11MaskOf(f int) int {
	if f == zzC11Vanilla {
		return 1 // vanilla-flavor has a primary (for :init) only
	}
	return c.mask[f]
}

// zzC11Providers is the precedence of flavor i restricted to the flavors that
// define at least one daemon of the message (vanilla-flavor last for :init).
func (c *zzC11Case) zzC11Providers(i int) []int {
	var out []int
	for _, f := range c.zzC11Prec(i) {
		if c.mask[f] != 0 {
			out = append(out, f)
		}
	}
	if c.msg == ":init" {
		out = append(out, zzC11Vanilla)
	}
	return out
}

// zzC11Expect computes the expected trace and value of sending the message to
// an instance of flavor i. handled is false when no flavor provides a daemon.
func (c *zzC11Case) zzC11Expect(i int) (trace []int64, val int64, isNil bool, handled bool) {
	prov := c.zzC11Providers(i)
	if len(prov) == 0 {
		return nil, 0, true, false
	}
	handled = true
	isNil = true
	for _, f := range prov {
		if c.zzC11MaskOf(f)&8 != 0 {
			trace = append(trace, int64(f*8+zzC11WhopIn))
		}
	}
	for _, f := range prov {
		if c.zzC11MaskOf(f)&2 != 0 {
			trace = append(trace, int64(f*8+zzC11Before))
		}
	}
	for _, f := range prov {
		if c.zzC11MaskOf(f)&1 != 0 {
			if f != zzC11Vanilla {
				trace = append(trace, int64(f*8+zzC11Primary))
				val = c.dflt[f] + c.pc[f]
				isNil = false
			}
			break
		}
	}
	for k := len(prov) - 1; 0 <= k; k-- {
		if c.zzC11MaskOf(prov[k])&4 != 0 {
			trace = append(trace, int64(prov[k]*8+zzC11After))
		}
	}
	for k := len(prov) - 1; 0 <= k; k-- {
		f := prov[k]
		if c.zzC11MaskOf(f)&8 != 0 {
			trace = append(trace, int64(f*8+zzC11WhopOut))
			if !isNil {
				val += c.wc[f]
			}
		}
	}
	return
}

// ---- the definition forms ----

func zzC11Sym(s string) slip.Object { return slip.Symbol(s) }

func zzC11Mark(code int) slip.Object {
	return slip.List{zzC11Sym("setq"), zzC11Sym("zzc11-tr"),
		slip.List{zzC11Sym("cons"), slip.Fixnum(code), zzC11Sym("zzc11-tr")}}
}

func (c *zzC11Case) zzC11VarName(i int) string { return "zzv" + strconv.Itoa(i) }

func (c *zzC11Case) zzC11Form(op zzC11Op) slip.Object {
	i := op.fl
	name := zzC11Sym(c.names[i])
	switch op.kind {
	case -1:
		var comps slip.List
		for _, k := range c.comps[i] {
			comps = append(comps, zzC11Sym(c.names[k]))
		}
		return slip.List{zzC11Sym("defflavor"), name,
			slip.List{slip.List{zzC11Sym(c.zzC11VarName(i)), slip.Fixnum(c.dflt[i])}},
			comps,
			zzC11Sym(":gettable-instance-variables")}
	case 0:
		return slip.List{zzC11Sym("defmethod"), slip.List{name, zzC11Sym(c.msg)}, slip.List{zzC11Sym("p")},
			zzC11Mark(i*8 + zzC11Primary),
			slip.List{zzC11Sym("+"), zzC11Sym(c.zzC11VarName(i)), slip.Fixnum(c.pc[i])}}
	case 1:
		return slip.List{zzC11Sym("defmethod"), slip.List{name, zzC11Sym(":before"), zzC11Sym(c.msg)}, slip.List{zzC11Sym("p")},
			zzC11Mark(i*8 + zzC11Before)}
	case 2:
		return slip.List{zzC11Sym("defmethod"), slip.List{name, zzC11Sym(":after"), zzC11Sym(c.msg)}, slip.List{zzC11Sym("p")},
			zzC11Mark(i*8 + zzC11After)}
	default:
		return slip.List{zzC11Sym("defwhopper"), slip.List{name, zzC11Sym(c.msg)}, slip.List{zzC11Sym("p")},
			zzC11Mark(i*8 + zzC11WhopIn),
			slip.List{zzC11Sym("let"), slip.List{slip.List{zzC11Sym("zzr"), slip.List{zzC11Sym("continue-whopper"), zzC11Sym("p")}}},
				zzC11Mark(i*8 + zzC11WhopOut),
				slip.List{zzC11Sym("if"), zzC11Sym("zzr"),
					slip.List{zzC11Sym("+"), zzC11Sym("zzr"), slip.Fixnum(c.wc[i])},
					nil}}}
	}
}

// zzC11Ops lists every definition form of the written program.
func (c *zzC11Case) zzC11Ops() []zzC11Op {
	var ops []zzC11Op
	for i := 0; i < c.n; i++ {
		ops = append(ops, zzC11Op{i, -1})
		for b := 0; b < 4; b++ {
			if c.mask[i]&(1<<b) != 0 {
				ops = append(ops, zzC11Op{i, b})
			}
		}
	}
	return ops
}

// zzC11History picks an order of the forms that respects "components before
// users" and "flavor before its methods". ord < 0: every order (vrt.Choice);
// ord >= 0: four pseudo-random orders (numbers 4*ord .. 4*ord+3, mixed with
// VERIF_SEED); the odd ones are drawn among the orders outside the
// insertMethod finding regions.
func (c *zzC11Case) zzC11History(ord int) []zzC11Op {
	if 0 <= ord {
		// four sampled orders per case (two unrestricted, two restricted)
		ord = ord*4 + vrt.Choice("smp", 4)
	}
	if ord < 0 || ord%2 == 0 {
		return c.zzC11Order(ord)
	}
	// odd ord: pseudo-random among the orders outside the insertMethod
	// regions (rejection sampling with the replica), so that sampled cases of
	// larger programs are not all cut by the carve-outs
	var hist []zzC11Op
	for t := 0; t < 300; t++ {
		hist = c.zzC11Order(ord + 2*t*100003)
		if early, wrong := c.zzC11Replica(hist); !early && !zzC11Any(wrong) {
			break
		}
	}
	return hist
}

func (c *zzC11Case) zzC11Order(ord int) []zzC11Op {
	ops := c.zzC11Ops()
	done := make([]bool, len(ops))
	defined := make([]bool, c.n)
	var hist []zzC11Op
	rnd := uint64(0)
	if 0 <= ord {
		seed, _ := strconv.Atoi(os.Getenv("VERIF_SEED"))
		rnd = uint64(ord)*0x9E3779B97F4A7C15 + uint64(seed)*0xD1B54A32D192ED03 + 0x2545F4914F6CDD1D
	}
	for step := 0; step < len(ops); step++ {
		var en []int
		for k, op := range ops {
			if done[k] {
				continue
			}
			ok := true
			if op.kind == -1 {
				for _, d := range c.comps[op.fl] {
					if !defined[d] {
						ok = false
					}
				}
			} else if !defined[op.fl] {
				ok = false
			}
			if ok {
				en = append(en, k)
			}
		}
		var pick int
		if ord < 0 {
			pick = vrt.Choice("o"+strconv.Itoa(step), len(en))
		} else {
			rnd ^= rnd << 13
			rnd ^= rnd >> 7
			rnd ^= rnd << 17
			pick = int(rnd % uint64(len(en)))
		}
		k := en[pick]
		done[k] = true
		if ops[k].kind == -1 {
			defined[ops[k].fl] = true
		}
		hist = append(hist, ops[k])
	}
	return hist
}

// ---- running slip ----

type zzC11Result struct {
	val   slip.Object
	class int // 0 value, 1 Lisp condition, 3 Go run-time fault, 4 other panic
	fault string
}

func zzC11Eval(s *slip.Scope, form slip.Object) (out zzC11Result) {
	defer func() {
		if rec := recover(); rec != nil {
			out.val = nil
			switch tr := rec.(type) {
			case *slip.Panic:
				out.class = 1
				if tr.Value != nil { // a Go panic wrapped by slip's evaluator (trace.go normalAfter)
					out.class = 3
					out.fault = tr.Message
				}
			case slip.Instance:
				out.class = 1
			case interface{ RuntimeError() }:
				out.class = 3
				out.fault = tr.(error).Error()
			default:
				out.class = 4
			}
		}
	}()
	out.val = s.Eval(form, 0)
	return
}

func (c *zzC11Case) zzC11Define(hist []zzC11Op) bool {
	r := zzC11Eval(c.scope, slip.List{zzC11Sym("defvar"), zzC11Sym("zzc11-tr"), nil})
	if r.class != 0 {
		return false
	}
	for _, op := range hist {
		r = zzC11Eval(c.scope, c.zzC11Form(op))
		if r.class != 0 {
			return false
		}
	}
	return true
}

// zzC11Trace reads the trace variable (newest first) into oldest-first codes.
func (c *zzC11Case) zzC11Trace() ([]int64, bool) {
	r := zzC11Eval(c.scope, zzC11Sym("zzc11-tr"))
	if r.class != 0 {
		return nil, false
	}
	if r.val == nil {
		return nil, true
	}
	list, ok := r.val.(slip.List)
	if !ok {
		return nil, false
	}
	out := make([]int64, len(list))
	for k, o := range list {
		f, ok2 := o.(slip.Fixnum)
		if !ok2 {
			return nil, false
		}
		out[len(list)-1-k] = int64(f)
	}
	return out, true
}

func zzC11SameTrace(a, b []int64) bool {
	if len(a) != len(b) {
		return false
	}
	for k := range a {
		if a[k] != b[k] {
			return false
		}
	}
	return true
}

// ---- replica of insertMethod's placement rule, used ONLY to delimit the
// regions of the known findings (never as the oracle) ----

// zzC11Replica replays the history on lists of flavor indexes the way
// pkg/generic/defmethod.go insertMethod places a late-defined combination
// (walk the inheritor's component list, advance while the entries match, put
// the new entry at the position reached with slices.Insert; the walk never
// stops at the component itself, which is the C11-insert-position defect).
// It also replays how Flavor.inheritFlavor (pkg/flavors/flavor.go:214-229)
// fills a new flavor's list: the whole list of each component (which already
// ends with vanilla-flavor's entry for a message like :init) is appended in
// turn. early: at some defflavor vanilla-flavor's entry landed in front of a
// later component's entry. wrong[d]: the final list of flavor d differs from
// the component order.
func (c *zzC11Case) zzC11Replica(hist []zzC11Op) (early bool, wrong []bool) {
	wrong = make([]bool, c.n)
	tab := make([][]int, c.n)
	defined := make([]bool, c.n)
	has := make([]bool, c.n)
	for _, op := range hist {
		i := op.fl
		if op.kind == -1 {
			defined[i] = true
			var list []int
			for _, f := range c.zzC11Prec(i)[1:] {
				for _, x := range tab[f] {
					if !zzC11In(list, x) {
						list = append(list, x)
					}
				}
			}
			if c.msg == ":init" && !zzC11In(list, zzC11Vanilla) {
				list = append(list, zzC11Vanilla)
			}
			if c.msg == ":init" && list[len(list)-1] != zzC11Vanilla {
				early = true
			}
			tab[i] = list
			continue
		}
		if has[i] {
			continue
		}
		has[i] = true
		if !(0 < len(tab[i]) && tab[i][0] == i) {
			tab[i] = append([]int{i}, tab[i]...)
		}
		for d := 0; d < c.n; d++ {
			if d == i || !defined[d] || !zzC11In(c.zzC11Prec(d), i) {
				continue
			}
			old := tab[d]
			if len(old) == 0 {
				tab[d] = []int{i}
				continue
			}
			pos := 0
			if old[0] == d {
				pos++
			}
			walk := append(append([]int{}, c.zzC11Prec(d)[1:]...), zzC11Vanilla)
			for _, f := range walk {
				if len(old) <= pos || old[pos] == i {
					break
				}
				if old[pos] == f {
					pos++
				}
			}
			var list []int
			list = append(list, old[:pos]...)
			list = append(list, i)
			list = append(list, old[pos:]...)
			tab[d] = list
		}
	}
	for d := 0; d < c.n; d++ {
		want := c.zzC11Providers(d)
		if len(want) != len(tab[d]) {
			wrong[d] = true
			continue
		}
		for k := range want {
			if want[k] != tab[d][k] {
				wrong[d] = true
			}
		}
	}
	return
}

func zzC11Any(bs []bool) bool {
	for _, b := range bs {
		if b {
			return true
		}
	}
	return false
}

func zzC11In(list []int, x int) bool {
	for _, y := range list {
		if y == x {
			return true
		}
	}
	return false
}

// zzC11CheckTable compares the method table and precedence list of flavor i
// with the component order.
func (c *zzC11Case) zzC11CheckTable(i int) {
	{
		si := strconv.Itoa(i)
		fl := allFlavors[c.names[i]]
		vrt.Assert(fl != nil, "flavor not registered, flavor "+si)
		if fl == nil {
			return
		}
		prec := c.zzC11Prec(i)
		okPrec := len(fl.Precedence) == len(prec)+3
		if okPrec {
			for k, f := range prec {
				if string(fl.Precedence[k]) != c.names[f] {
					okPrec = false
				}
			}
			if string(fl.Precedence[len(prec)]) != "vanilla-flavor" {
				okPrec = false
			}
		}
		vrt.Assert(okPrec, "class precedence list differs from component order, flavor "+si)
		prov := c.zzC11Providers(i)
		m := fl.methods[c.msg]
		if len(prov) == 0 {
			vrt.Assert(m == nil, "method table entry without any daemon, flavor "+si)
			return
		}
		vrt.Assert(m != nil, "method table entry missing, flavor "+si)
		if m == nil {
			return
		}
		// every provider exactly once
		complete := len(m.Combinations) == len(prov)
		for _, f := range prov {
			cnt := 0
			for _, cb := range m.Combinations {
				if cb.From != nil && cb.From.Name() == c.zzC11NameOf(f) {
					cnt++
				}
			}
			if cnt != 1 {
				complete = false
			}
		}
		vrt.Assert(complete, "method table lost or duplicated a component's daemons, flavor "+si)
		if !complete {
			return
		}
		okOrder := true
		for k, f := range prov {
			cb := m.Combinations[k]
			if cb.From.Name() != c.zzC11NameOf(f) {
				okOrder = false
			}
		}
		vrt.Assert(okOrder, "method table is not in component order, flavor "+si)
		if !okOrder {
			return
		}
		for k, f := range prov {
			cb := m.Combinations[k]
			mk := c.zzC11MaskOf(f)
			okBits := (cb.Primary != nil) == (mk&1 != 0) && (cb.Before != nil) == (mk&2 != 0) &&
				(cb.After != nil) == (mk&4 != 0) && (cb.Wrap != nil) == (mk&8 != 0)
			vrt.Assert(okBits, "daemons of a table entry differ from the definitions, flavor "+si)
		}
	}
}

func (c *zzC11Case) zzC11NameOf(f int) string {
	if f == zzC11Vanilla {
		return "vanilla-flavor"
	}
	return c.names[f]
}

// zzC11CheckSend makes an instance of flavor i, sends the message (through
// send, or through Instance.BoundReceive when bound) and checks trace, value
// and inherited variables.
func (c *zzC11Case) zzC11CheckSend(i int, bound bool) {
	si := strconv.Itoa(i)
	mk := zzC11Eval(c.scope, slip.List{zzC11Sym("setq"), zzC11Sym("zzc11-inst"),
		slip.List{zzC11Sym("make-instance"), slip.List{zzC11Sym("quote"), zzC11Sym(c.names[i])}}})
	vrt.Assert(mk.class == 0, "make-instance failed for flavor "+si)
	if mk.class != 0 {
		return
	}
	zzC11Eval(c.scope, slip.List{zzC11Sym("setq"), zzC11Sym("zzc11-tr"), nil})
	var r zzC11Result
	if bound {
		inst, _ := mk.val.(*Instance)
		vrt.Assert(inst != nil, "make-instance did not return a flavors instance, flavor "+si)
		if inst == nil {
			return
		}
		r = zzC11BoundSend(c.scope, inst, c.msg)
	} else {
		r = zzC11Eval(c.scope, slip.List{zzC11Sym("send"), zzC11Sym("zzc11-inst"), zzC11Sym(c.msg), nil})
	}
	wantTrace, wantVal, wantNil, handled := c.zzC11Expect(i)
	vrt.Reach("sent")
	vrt.Assert(r.class != 3 && r.class != 4, "send ended in a Go run-time fault: "+r.fault)
	if !handled {
		vrt.Assert(r.class == 1, "unhandled message did not signal a condition, flavor "+si)
		return
	}
	vrt.Assert(r.class == 0, "send signalled a condition, flavor "+si)
	got, okTr := c.zzC11Trace()
	vrt.Note("trace", i, zzC11TraceString(got))
	vrt.Assert(okTr && zzC11SameTrace(got, wantTrace), "daemon trace differs from component order, flavor "+si)
	if wantNil {
		vrt.Assert(r.val == nil, "value of send should be nil, flavor "+si)
	} else {
		f, isFix := r.val.(slip.Fixnum)
		vrt.Assert(isFix && int64(f) == wantVal, "value of send differs, flavor "+si)
	}
	// every variable of every flavor in the precedence is inherited with its default
	for _, f := range c.zzC11Prec(i) {
		g := zzC11Eval(c.scope, slip.List{zzC11Sym("send"), zzC11Sym("zzc11-inst"), zzC11Sym(":" + c.zzC11VarName(f))})
		gv, isFix := g.val.(slip.Fixnum)
		vrt.Assert(g.class == 0 && isFix && int64(gv) == c.dflt[f], "inherited variable default differs, flavor "+si)
	}
}

func zzC11HistString(hist []zzC11Op) string {
	s := ""
	for _, op := range hist {
		s += strconv.Itoa(op.fl) + "dpbaw"[op.kind+1:op.kind+2] + ","
	}
	return s
}

func zzC11TraceString(tr []int64) string {
	s := "["
	for _, t := range tr {
		s += strconv.Itoa(int(t)) + ","
	}
	return s + "]"
}

func zzC11BoundSend(s *slip.Scope, inst *Instance, msg string) (out zzC11Result) {
	defer func() {
		if rec := recover(); rec != nil {
			out.val = nil
			switch tr := rec.(type) {
			case *slip.Panic:
				out.class = 1
				if tr.Value != nil { // a Go panic wrapped by slip's evaluator (trace.go normalAfter)
					out.class = 3
					out.fault = tr.Message
				}
			case slip.Instance:
				out.class = 1
			case interface{ RuntimeError() }:
				out.class = 3
				out.fault = tr.(error).Error()
			default:
				out.class = 4
			}
		}
	}()
	b := slip.NewScope()
	b.Let(slip.Symbol("p"), nil)
	out.val = inst.BoundReceive(s, msg, b, 0)
	return
}

func zzC11Work(n, shape, masks, msg, ord int, bound bool) {
	c := zzC11Decode(n, shape, masks, msg)
	hist := c.zzC11History(ord)
	early, wrong := c.zzC11Replica(hist)
	vrt.Note("history", zzC11HistString(hist))
	// The two remaining table findings concern single flavors of a program
	// (those whose own table is misordered): the path is split, part 0 checks
	// every flavor whose table is predicted in component order, part 1 (inside
	// the region of the finding) the others.
	part := 0
	if zzC11Any(wrong) {
		part = vrt.Choice("part", 2)
	}
	vrt.Carve("C11-vanilla-before-components", part == 1 && early)
	vrt.Carve("C11-insert-position", part == 1 && !early)
	okDef := c.zzC11Define(hist)
	vrt.Assert(okDef, "a definition form signalled an error")
	if !okDef {
		return
	}
	for i := 0; i < c.n; i++ {
		if wrong[i] == (part == 1) {
			c.zzC11CheckTable(i)
			c.zzC11CheckSend(i, bound)
		}
	}
}

// VerifC11Send: trace and value of (send inst msg nil) for an instance of
// every flavor, the inherited defaults through the gettable accessors, and the
// method tables.
func VerifC11Send(n, shape, masks, msg, ord int) {
	zzC11Work(n, shape, masks, msg, ord, false)
}

// VerifC11Bound: the same through Instance.BoundReceive (Method.BoundCall /
// BoundInnerCall), custom message only.
func VerifC11Bound(n, shape, masks, ord int) {
	zzC11Work(n, shape, masks, 0, ord, true)
}

// ---- instance variables, accessors, init keywords ----

// VerifC11Vars: every flavor i may declare the shared variable x (decl digit,
// base 3: 0 not declared, 1 (x d_i), 2 x without default) and options (opts
// digit, base 32: bit 0 gettable x, bit 1 settable x, bit 2 x initable, bit 3
// (:default-init-plist (:zzk k_i)), bit 4 own variable zzv<i> initable). The
// defflavor forms are evaluated in every order that respects components before
// users. Oracle: the first flavor in component precedence providing the
// default / accessor / init keyword. For the default of x "providing" means
// declaring x at all: slip gives every declared variable a default, nil for a
// bare declaration, so the first declaration in precedence order - with or
// without an explicit default - decides the value (lead's decision; the former
// carve C11-undefaulted-var-shadows-default read a bare declaration as
// transparent and was a false alarm).
func VerifC11Vars(n, shape, decl, opts, ord int) {
	c := zzC11Decode(n, shape, 0, 0)
	vk := make([]int, n)
	op := make([]int, n)
	kv := make([]int64, n)
	for i := 0; i < n; i++ {
		vk[i] = decl % 3
		decl /= 3
		op[i] = opts % 32
		opts /= 32
		if vk[i] == 0 {
			op[i] &^= 7
		}
		k := int64(vrt.Int32("k" + strconv.Itoa(i)))
		kv[i] = k
	}
	setv := int64(vrt.Int32("setv"))
	initv := int64(vrt.Int32("initv"))
	// per flavor expectations
	initLost := make([]bool, n) // x initable in a component, own initable list non-empty without x
	anyInitLost := false
	for i := 0; i < n; i++ {
		inh := false
		for _, f := range c.zzC11Prec(i) {
			if op[f]&4 != 0 {
				inh = true
			}
		}
		initLost[i] = inh && op[i]&4 == 0 && op[i]&16 != 0
		anyInitLost = anyInitLost || initLost[i]
	}
	part := 0
	if anyInitLost {
		part = 2 * vrt.Choice("part", 2)
	}
	vrt.Carve("C11-initable-not-inherited", part == 2)
	// forms that may signal a condition refer to the symbolic values through
	// variables (a condition records the failing form as text)
	zzC11Eval(c.scope, slip.List{zzC11Sym("defvar"), zzC11Sym("zzc11-setv"), nil})
	zzC11Eval(c.scope, slip.List{zzC11Sym("defvar"), zzC11Sym("zzc11-initv"), nil})
	zzC11Eval(c.scope, slip.List{zzC11Sym("setq"), zzC11Sym("zzc11-setv"), slip.Fixnum(setv)})
	zzC11Eval(c.scope, slip.List{zzC11Sym("setq"), zzC11Sym("zzc11-initv"), slip.Fixnum(initv)})
	hist := c.zzC11History(ord) // masks are 0: defflavor forms only
	for _, h := range hist {
		i := h.fl
		vars := slip.List{slip.List{zzC11Sym(c.zzC11VarName(i)), slip.Fixnum(c.dflt[i])}}
		switch vk[i] {
		case 1:
			vars = append(vars, slip.List{zzC11Sym("x"), slip.Fixnum(c.pc[i])})
		case 2:
			vars = append(vars, zzC11Sym("x"))
		}
		var comps slip.List
		for _, k := range c.comps[i] {
			comps = append(comps, zzC11Sym(c.names[k]))
		}
		form := slip.List{zzC11Sym("defflavor"), zzC11Sym(c.names[i]), vars, comps}
		if op[i]&1 != 0 {
			form = append(form, slip.List{zzC11Sym(":gettable-instance-variables"), zzC11Sym("x")})
		}
		if op[i]&2 != 0 {
			form = append(form, slip.List{zzC11Sym(":settable-instance-variables"), zzC11Sym("x")})
		}
		if op[i]&(4|16) != 0 {
			il := slip.List{zzC11Sym(":initable-instance-variables")}
			if op[i]&4 != 0 {
				il = append(il, zzC11Sym("x"))
			}
			if op[i]&16 != 0 {
				il = append(il, zzC11Sym(c.zzC11VarName(i)))
			}
			form = append(form, il)
		}
		if op[i]&8 != 0 {
			form = append(form, slip.List{zzC11Sym(":default-init-plist"), slip.List{zzC11Sym(":zzk"), slip.Fixnum(kv[i])}})
		}
		r := zzC11Eval(c.scope, form)
		vrt.Assert(r.class == 0, "defflavor signalled an error")
		if r.class != 0 {
			return
		}
	}
	for i := 0; i < n; i++ {
		in := 0
		if initLost[i] {
			in = 2
		}
		if in == part {
			c.zzC11CheckVars(i, vk, op, kv, setv, initv)
		}
	}
}

func (c *zzC11Case) zzC11CheckVars(i int, vk, op []int, kv []int64, setv, initv int64) {
	si := strconv.Itoa(i)
	prec := c.zzC11Prec(i)
	hasX, hasDef, gettable, settable, initable, hasKey := false, false, false, false, false, false
	var def, key int64
	for _, f := range prec {
		if vk[f] != 0 && !hasX {
			// the first declaration in precedence order decides: its explicit
			// default, or nil for a bare declaration
			hasX = true
			if vk[f] == 1 {
				hasDef = true
				def = c.pc[f]
			}
		}
		gettable = gettable || op[f]&1 != 0
		settable = settable || op[f]&2 != 0
		initable = initable || op[f]&4 != 0
		if op[f]&8 != 0 && !hasKey {
			hasKey = true
			key = kv[f]
		}
	}
	quoted := slip.List{zzC11Sym("quote"), zzC11Sym(c.names[i])}
	mk := zzC11Eval(c.scope, slip.List{zzC11Sym("setq"), zzC11Sym("zzc11-inst"), slip.List{zzC11Sym("make-instance"), quoted}})
	vrt.Reach("made")
	vrt.Assert(mk.class == 0, "make-instance failed, flavor "+si)
	inst, _ := mk.val.(*Instance)
	if mk.class != 0 || inst == nil {
		return
	}
	// own variables of every flavor in the precedence
	for _, f := range prec {
		v, has := inst.Vars[c.zzC11VarName(f)]
		fx, isFix := v.(slip.Fixnum)
		vrt.Assert(has && isFix && int64(fx) == c.dflt[f], "own variable of a component missing or wrong, flavor "+si)
	}
	// default of x
	xv, has := inst.Vars["x"]
	vrt.Assert(has == hasX, "presence of the shared variable differs, flavor "+si)
	if hasX {
		if hasDef {
			fx, isFix := xv.(slip.Fixnum)
			vrt.Assert(isFix && int64(fx) == def, "default of x is not the one of the first declaration in component order, flavor "+si)
		} else {
			vrt.Assert(xv == nil, "x whose first declaration has no default should be nil, flavor "+si)
		}
	}
	// gettable
	g := zzC11Eval(c.scope, slip.List{zzC11Sym("send"), zzC11Sym("zzc11-inst"), zzC11Sym(":x")})
	vrt.Assert(g.class == 0 || g.class == 1, "send :x ended in a Go fault: "+g.fault)
	if gettable {
		vrt.Assert(g.class == 0, "inherited gettable accessor missing, flavor "+si)
		if hasDef {
			fx, isFix := g.val.(slip.Fixnum)
			vrt.Assert(isFix && int64(fx) == def, "(send inst :x) is not the default of the first declaration in component order, flavor "+si)
		} else {
			vrt.Assert(g.val == nil, "(send inst :x) should be nil, flavor "+si)
		}
	} else {
		vrt.Assert(g.class == 1, "accessor :x exists although no component declares it, flavor "+si)
	}
	// settable (on a fresh instance: a rejected message must not influence this probe)
	mk = zzC11Eval(c.scope, slip.List{zzC11Sym("setq"), zzC11Sym("zzc11-inst"), slip.List{zzC11Sym("make-instance"), quoted}})
	inst, _ = mk.val.(*Instance)
	vrt.Assert(mk.class == 0 && inst != nil, "make-instance failed, flavor "+si)
	if mk.class != 0 || inst == nil {
		return
	}
	st := zzC11Eval(c.scope, slip.List{zzC11Sym("send"), zzC11Sym("zzc11-inst"), zzC11Sym(":set-x"), zzC11Sym("zzc11-setv")})
	vrt.Assert(st.class == 0 || st.class == 1, "send :set-x ended in a Go fault: "+st.fault)
	if settable {
		vrt.Assert(st.class == 0, "inherited settable accessor missing, flavor "+si)
		fx, isFix := inst.Vars["x"].(slip.Fixnum)
		vrt.Assert(isFix && int64(fx) == setv, ":set-x did not set x, flavor "+si)
	} else {
		vrt.Assert(st.class == 1, "accessor :set-x exists although no component declares it, flavor "+si)
	}
	// initable x
	if hasX {
		mi := zzC11Eval(c.scope, slip.List{zzC11Sym("make-instance"), quoted, zzC11Sym(":x"), zzC11Sym("zzc11-initv")})
		vrt.Assert(mi.class == 0 || mi.class == 1, "make-instance :x ended in a Go fault: "+mi.fault)
		if initable {
			vrt.Assert(mi.class == 0, "x declared initable by a component is rejected by make-instance, flavor "+si)
			if i2, _ := mi.val.(*Instance); i2 != nil {
				fx, isFix := i2.Vars["x"].(slip.Fixnum)
				vrt.Assert(isFix && int64(fx) == initv, "make-instance :x did not initialise x, flavor "+si)
			}
		}
	}
	// own initable variable stays initable
	if op[i]&16 != 0 {
		mi := zzC11Eval(c.scope, slip.List{zzC11Sym("make-instance"), quoted, zzC11Sym(":" + c.zzC11VarName(i)), zzC11Sym("zzc11-initv")})
		vrt.Assert(mi.class == 0, "own initable variable rejected, flavor "+si)
		if i2, _ := mi.val.(*Instance); i2 != nil {
			fx, isFix := i2.Vars[c.zzC11VarName(i)].(slip.Fixnum)
			vrt.Assert(isFix && int64(fx) == initv, "own initable variable not initialised, flavor "+si)
		}
	}
	// init keyword of :default-init-plist
	fl := allFlavors[c.names[i]]
	kw, hasKw := fl.keywords[":zzk"]
	vrt.Assert(hasKw == hasKey, "inherited init keyword presence differs, flavor "+si)
	if hasKey {
		fx, isFix := kw.(slip.Fixnum)
		vrt.Assert(isFix && int64(fx) == key, "init keyword default is not the first in component order, flavor "+si)
	}
	mkk := zzC11Eval(c.scope, slip.List{zzC11Sym("make-instance"), quoted, zzC11Sym(":zzk"), zzC11Sym("zzc11-initv")})
	if hasKey {
		vrt.Assert(mkk.class == 0, "inherited init keyword rejected by make-instance, flavor "+si)
	} else {
		vrt.Assert(mkk.class == 1, "undeclared init keyword accepted by make-instance, flavor "+si)
	}
}
