package repl

import (
	"os"

	vrt "github.com/ohler55/slip/zzvrt"
)

// VerifC20Torn: the process (or the machine) dies in the middle of the single
// write by which History.Add appends an entry: only the first `cut` bytes of
// what Add would have written reach the history file (cut chosen by the
// solver over 0..len).  The next start loads the entries that were there
// before — a torn entry is never loaded as if the user had entered it — or,
// when every byte arrived, the list after the Add.  A following complete Add
// leaves a file that loads as list + that entry... at least without a torn or
// merged entry in front of it.
//
//	shape: 0 one line of two symbolic letters, 1 two lines of one symbolic letter, 3 one letter
func VerifC20Torn(n0, shape int) {
	dir := zzC20Dir()
	file := dir + "/history"
	before := zzC20Seed(file, n0)
	base, _ := os.ReadFile(file)
	var h History
	h.SetLimit(100)
	f := zzC20SymForm("f", shape)
	if 0 < n0 {
		// not a duplicate of the last entry (Add would write nothing)
		last := before[n0-1]
		if len(last) == len(f) {
			ok, d := zzC20FormDiff(last, f)
			vrt.Assume(!(ok && d == 0))
		}
	}
	class := zzC20Try(func() {
		h.Load(file)
		h.Add(f)
	})
	full, err := os.ReadFile(file)
	vrt.Assert(class == 0 && err == nil, "complete Add failed")
	vrt.Assert(len(base) < len(full), "Add wrote nothing")
	added := len(full) - len(base)
	cut := vrt.Choice("cut", added+1)
	if err = os.WriteFile(file, full[:len(base)+cut], 0666); err != nil {
		panic(err)
	}
	after := append(zzC20CopyForms(before), f)

	var h2 History
	h2.SetLimit(100)
	cl2 := zzC20Try(func() { h2.Load(file) })
	loaded := zzC20CopyForms(h2.forms)
	vrt.Note("torn", n0, shape, added, cut, len(loaded))
	zzC20Cleanup(dir)
	vrt.Reach("restarted")
	vrt.Assert(cl2 == 0, "History.Load of a history whose last write was torn panicked")
	if cut == added {
		ok, d := zzC20FormsDiff(loaded, after)
		vrt.Assert(ok && d == 0, "complete write: the reloaded history is not the list after the Add")
		return
	}
	ok, d := zzC20FormsDiff(loaded, before)
	vrt.Assert(ok && d == 0, "a torn last entry (write cut short by a process death) was loaded as a history entry")
}
