package repl

import (
	vrt "github.com/ohler55/slip/zzvrt"
)

// VerifC20Alias: the form handed to History.Add / Stash.Add is the editor's
// buffer, which the user goes on editing in place.  What was remembered stays
// what was entered: after the buffer is changed in place (a rune replaced, a
// line truncated) the remembered entry still holds the old text, the edited
// buffer entered again is a NEW entry (not dropped as a duplicate of the entry
// it was recalled from), and a restart loads exactly the entries entered.
//
//	kind 0: History, 1: Stash (memory only: no file name set is a no-op for Stash.Add, so a file is used)
//	edit 0: replace the first rune by another symbolic letter; 1: cut the last rune off the first line;
//	     2: the form recalled from the history (History.Get/Nth result) is edited in place instead of the entered buffer
func VerifC20Alias(kind, edit, n0 int) {
	dir := zzC20Dir()
	file := dir + "/history"
	before := zzC20Seed(file, n0)
	letter := func(name string) rune {
		b := vrt.Byte(name)
		vrt.Assume('a' <= b && b <= 'z')
		return rune(b)
	}
	a, b2, c := letter("a"), letter("b"), letter("c")
	vrt.Assume(c != a)
	buf := Form{[]rune{a, b2, 'x'}}
	first := Form{[]rune{a, b2, 'x'}}
	var second Form
	var h History
	var s Stash
	class := 0
	var mem []Form
	if kind == 0 {
		h.SetLimit(100)
		class = zzC20Try(func() {
			h.Load(file)
			h.Add(buf)
		})
	} else {
		file = dir + "/stash.lisp"
		before = nil
		class = zzC20Try(func() {
			s.LoadExpanded(file)
			s.Add(buf)
		})
	}
	vrt.Assert(class == 0, "first Add failed")
	// the user edits in place
	target := buf
	if edit == 2 {
		if kind == 0 {
			target = h.forms[len(h.forms)-1]
		} else {
			target = s.forms[len(s.forms)-1]
		}
		// a recalled form is handed to the editor as a copy (Form.Dup): edit that copy
		target = target.Dup()
	}
	switch edit {
	case 1:
		target[0] = target[0][:2]
		second = Form{[]rune{a, b2}}
	default:
		target[0][0] = c
		second = Form{[]rune{c, b2, 'x'}}
	}
	class = zzC20Try(func() {
		if kind == 0 {
			h.Add(target)
			mem = zzC20CopyForms(h.forms)
		} else {
			s.Add(target)
			mem = zzC20CopyForms(s.forms)
		}
	})
	vrt.Assert(class == 0, "second Add failed")
	want := append(zzC20CopyForms(before), first, second)
	vrt.Reach("edited")
	ok, d := zzC20FormsDiff(mem, want)
	vrt.Assert(ok, "after editing the entered buffer in place and entering it again the remembered list has the wrong number/shape of entries")
	vrt.Assert(d == 0, "an entry remembered earlier changed when the buffer it was entered from was edited in place")
	// restart
	var loaded []Form
	class = zzC20Try(func() {
		if kind == 0 {
			var h2 History
			h2.SetLimit(100)
			h2.Load(file)
			loaded = zzC20CopyForms(h2.forms)
		} else {
			var s2 Stash
			s2.LoadExpanded(file)
			loaded = zzC20CopyForms(s2.forms)
		}
	})
	zzC20Cleanup(dir)
	vrt.Assert(class == 0, "load after the restart failed")
	ok, d = zzC20FormsDiff(loaded, want)
	vrt.Assert(ok && d == 0, "after a restart the loaded entries are not the forms that were entered")
}
