package repl

// C20 — REPL history, stash and settings persist intact across restarts and
// crashes.  The os file API is the engine's in-memory model (engine/x_c20.go);
// natively (replay) the same harness works on a real temporary directory.

import (
	"io"
	"os"
	"path/filepath"
	"strconv"

	"github.com/ohler55/slip"
	vrt "github.com/ohler55/slip/zzvrt"
)

// ---- harness side of the file-system model -------------------------------
//
// The Go bodies below are the native (replay) variants.  In the engine the
// functions are intrinsics of symgo-c20 (engine/x_c20.go); if the engine has
// no such intrinsic the body runs and ends the path as unsupported instead of
// touching the real file system.

func zzC20NeedModel() {
	if vrt.Symbolic() {
		vrt.Unsupported("C20 needs the file-system model of engine/x_c20.go (SYMGO_BIN=/verif/bin/symgo-c20)")
	}
}

// zzC20FsReset empties the model directory and disarms the crash point.
func zzC20FsReset() { zzC20NeedModel() }

// zzC20FsArm(k): counting from now, the file-system call that would be step k
// (0-based) does not happen; the process "dies" there.  k < 0: never.
func zzC20FsArm(k int) { zzC20NeedModel() }

// zzC20FsDisarm thaws the model; it tells how many steps ran since the arming
// and whether the crash point was hit.
func zzC20FsDisarm() (int, bool) { zzC20NeedModel(); return 0, false }

// zzC20Export hands an engine-side value to the native replay (engine: records
// v under the name and returns v; native: reads the recorded value).
func zzC20Export(name string, v int) int { zzC20NeedModel(); return vrt.Int(name) }

// zzC20ExportBytes: same for byte vectors of (concrete) length n.
func zzC20ExportBytes(name string, b []byte, n int) []byte {
	zzC20NeedModel()
	return vrt.Bytes(name, n)
}

// zzC20Dir gives an empty working directory: the model's in the engine, a
// fresh temporary directory natively.
func zzC20Dir() string {
	if vrt.Symbolic() {
		zzC20FsReset()
		dir := "/tmp/zzc20-model"
		if err := os.MkdirAll(dir, 0755); err != nil {
			vrt.Unsupported("model MkdirAll failed")
		}
		return dir
	}
	// natively: inside the scratch directory of the running check (removed by
	// the check driver even when an assertion ends the process)
	base := ""
	if f := os.Getenv("VERIF_REPLAY"); f != "" {
		base = filepath.Dir(f)
	}
	dir, err := os.MkdirTemp(base, "zzc20-")
	if err != nil {
		panic(err)
	}
	return dir
}

func zzC20Cleanup(dir string) {
	if !vrt.Symbolic() {
		_ = os.RemoveAll(dir)
	}
}

var zzC20Debug = false

// zzC20Try runs f; 0: returned, 1: Go run-time fault, 2: any other panic
// (pkg/repl panics with the os error when a file operation fails).
func zzC20Try(f func()) (class int) {
	defer func() {
		if rec := recover(); rec != nil {
			if _, ok := rec.(interface{ RuntimeError() }); ok {
				class = 1
			} else {
				class = 2
			}
			if zzC20Debug {
				switch tr := rec.(type) {
				case error:
					vrt.Note("panic", tr.Error())
				case string:
					vrt.Note("panic", tr)
				default:
					vrt.Note("panic", slip.ObjectString(slip.SimpleObject(rec)))
				}
			}
		}
	}()
	f()
	return 0
}

// ---- oracle helpers (index based, no branching on rune values) -----------

// zzC20FormDiff: shape equal (concrete) and the OR of all rune differences.
func zzC20FormDiff(a, b Form) (bool, rune) {
	if len(a) != len(b) {
		return false, 0
	}
	var d rune
	for i := 0; i < len(a); i++ {
		if len(a[i]) != len(b[i]) {
			return false, 0
		}
		for j := 0; j < len(a[i]); j++ {
			d |= a[i][j] ^ b[i][j]
		}
	}
	return true, d
}

func zzC20FormsDiff(a, b []Form) (bool, rune) {
	if len(a) != len(b) {
		return false, 0
	}
	var d rune
	for i := 0; i < len(a); i++ {
		ok, x := zzC20FormDiff(a[i], b[i])
		if !ok {
			return false, 0
		}
		d |= x
	}
	return true, d
}

// zzC20IsSpace: the white space of unicode.IsSpace, written out.
func zzC20IsSpace(r rune) bool {
	if r == ' ' || (9 <= r && r <= 13) || r == 0x85 || r == 0xA0 || r == 0x1680 {
		return true
	}
	if (0x2000 <= r && r <= 0x200A) || r == 0x2028 || r == 0x2029 || r == 0x202F || r == 0x205F || r == 0x3000 {
		return true
	}
	return false
}

func zzC20ValidRune(r rune) bool {
	return 0 <= r && r <= 0x10FFFF && !(0xD800 <= r && r <= 0xDFFF)
}

// ---- (i) encoding round trip: History.Add -> file -> History.Load ---------

// VerifC20Encoding: a form of nlines lines with l0,l1,l2 symbolic runes (any
// valid Unicode scalar) is added to an empty history; a fresh History.Load of
// the file must give back exactly that form.
func VerifC20Encoding(nlines, l0, l1, l2 int) {
	lens := []int{l0, l1, l2}
	form := make(Form, nlines)
	blank := true    // only ' ' (what Form.Empty calls empty)
	tabOrNL := false // a TAB or NEWLINE inside a line
	for i := 0; i < nlines; i++ {
		line := make([]rune, lens[i])
		for j := 0; j < lens[i]; j++ {
			r := vrt.Rune("r" + strconv.Itoa(i) + "_" + strconv.Itoa(j))
			vrt.Assume(zzC20ValidRune(r))
			line[j] = r
			if r != ' ' {
				blank = false
			}
			if r == '\t' || r == '\n' {
				tabOrNL = true
			}
		}
		form[i] = line
	}
	vrt.Carve("C20-history-tab-or-newline-in-line", !blank && tabOrNL)
	first, last := form[0], form[nlines-1]
	edge := len(first) == 0 || len(last) == 0
	if !edge {
		edge = zzC20IsSpace(first[0]) || zzC20IsSpace(last[len(last)-1])
	}
	vrt.Carve("C20-history-edge-blanks-trimmed", !blank && edge)

	dir := zzC20Dir()
	file := dir + "/history"
	var h, h2 History
	class := zzC20Try(func() {
		h.SetLimit(100)
		h.Load(file)
		h.Add(form)
		h2.SetLimit(100)
		h2.Load(file)
	})
	vrt.Note("encoding", zzC20FileLen(file), len(h.forms), len(h2.forms))
	zzC20Cleanup(dir)
	vrt.Reach("reloaded")
	vrt.Assert(class == 0, "History.Add/Load panicked")
	if blank {
		vrt.Assert(len(h.forms) == 0 && len(h2.forms) == 0, "a blank form was stored")
		return
	}
	vrt.Assert(len(h.forms) == 1, "form not kept in memory")
	vrt.Assert(len(h2.forms) == 1, "reloaded history does not hold exactly the one form added")
	ok, d := zzC20FormDiff(h2.forms[0], form)
	vrt.Assert(ok, "reloaded form has a different line structure")
	vrt.Assert(d == 0, "reloaded form has different characters")
}

// ---- (iv) Stash.clear against "delete the inclusive range" ----------------

func zzC20RefClear(forms []Form, start, end int) []Form {
	n := len(forms)
	if n == 0 || start >= n {
		return forms
	}
	lo, hi := start, end
	if lo < 0 {
		lo = 0
	}
	if hi < 0 || hi >= n {
		hi = n - 1
	}
	if lo > hi {
		return forms
	}
	out := []Form{}
	for i := 0; i < n; i++ {
		if i < lo || hi < i {
			out = append(out, forms[i])
		}
	}
	return out
}

// zzC20ClearRegion: the range names at least one entry but not all of them.
func zzC20ClearRegion(n, start, end int) bool {
	if n == 0 || start >= n {
		return false
	}
	lo, hi := start, end
	if lo < 0 {
		lo = 0
	}
	if hi < 0 || hi >= n {
		hi = n - 1
	}
	if lo > hi {
		return false
	}
	return !(lo == 0 && hi == n-1)
}

// VerifC20StashClear: n one-line forms with a symbolic character each,
// symbolic start and end.
func VerifC20StashClear(n int) {
	forms := make([]Form, n)
	keep := make([]Form, n)
	for i := 0; i < n; i++ {
		r := vrt.Rune("f" + strconv.Itoa(i))
		vrt.Assume('!' <= r && r <= '~')
		forms[i] = Form{[]rune{r}}
		keep[i] = Form{[]rune{r}}
	}
	start := vrt.Int("start")
	end := vrt.Int("end")
	vrt.Assume(-3 <= start && start <= n+3 && -3 <= end && end <= n+3)
	vrt.Carve("C20-stash-clear-partial-range", zzC20ClearRegion(n, start, end))
	ref := zzC20RefClear(keep, start, end)
	var s Stash
	s.forms = forms
	class := zzC20Try(func() { s.clear(start, end) })
	vrt.Reach("cleared")
	vrt.Assert(class == 0, "Stash.clear panicked")
	ok, d := zzC20FormsDiff(s.forms, ref)
	vrt.Assert(ok, "Stash.clear leaves a different number of entries than deleting the inclusive range")
	vrt.Assert(d == 0, "Stash.clear leaves different entries than deleting the inclusive range")
}

// ---- reference model of the history ---------------------------------------

// zzC20Ref: the list of forms as the user entered them, and the limit.
type zzC20Ref struct {
	forms []Form
	limit int
}

func zzC20Blank(f Form) bool {
	for i := 0; i < len(f); i++ {
		for j := 0; j < len(f[i]); j++ {
			if f[i][j] != ' ' {
				return false
			}
		}
	}
	return true
}

// add: append unless blank or equal to the most recent entry; when the length
// reaches limit + limit/10 only the most recent limit entries stay.
// Returns whether the list was compacted.
func (m *zzC20Ref) add(f Form) bool {
	if m.limit <= 0 || zzC20Blank(f) {
		return false
	}
	if n := len(m.forms); n > 0 {
		if ok, d := zzC20FormDiff(m.forms[n-1], f); ok && d == 0 {
			return false
		}
	}
	m.forms = append(append([]Form{}, m.forms...), f)
	if m.limit+m.limit/10 <= len(m.forms) {
		m.forms = m.forms[len(m.forms)-m.limit:]
		return true
	}
	return false
}

func (m *zzC20Ref) wouldCompact(f Form) bool {
	c := zzC20Ref{forms: m.forms, limit: m.limit}
	return c.add(f)
}

// zzC20Seed writes n concrete entries (two lower-case letters; every fourth
// entry has two lines) in the history file format and returns them.
func zzC20Seed(file string, n int) []Form {
	forms := []Form{}
	var buf []byte
	for i := 0; i < n; i++ {
		c0, c1 := byte('a'+i/26), byte('a'+i%26)
		if i%4 == 3 {
			buf = append(buf, c0, c1, '\t', c1, c0, '\n')
			forms = append(forms, Form{[]rune{rune(c0), rune(c1)}, []rune{rune(c1), rune(c0)}})
		} else {
			buf = append(buf, c0, c1, '\n')
			forms = append(forms, Form{[]rune{rune(c0), rune(c1)}})
		}
	}
	if n > 0 {
		if err := os.WriteFile(file, buf, 0666); err != nil {
			panic(err)
		}
	}
	return forms
}

// zzC20SymForm: shape 0: one line of two symbolic letters; 1: two lines of one
// symbolic letter each; 2: a blank form; 3: one symbolic letter.
func zzC20SymForm(tag string, shape int) Form {
	let := func(name string) rune {
		b := vrt.Byte(name)
		vrt.Assume('a' <= b && b <= 'z')
		return rune(b)
	}
	switch shape {
	case 1:
		return Form{[]rune{let(tag + "a")}, []rune{let(tag + "b")}}
	case 2:
		return Form{[]rune{' ', ' '}}
	case 3:
		return Form{[]rune{let(tag + "a")}}
	}
	return Form{[]rune{let(tag + "a"), let(tag + "b")}}
}

func zzC20CopyForms(fs []Form) []Form {
	out := make([]Form, len(fs))
	for i := range fs {
		f := make(Form, len(fs[i]))
		for j := range fs[i] {
			f[j] = append([]rune{}, fs[i][j]...)
		}
		out[i] = f
	}
	return out
}

// ---- (ii) restart equivalence ----------------------------------------------

// VerifC20Restart: from a consistent state of n0 entries and limit0, up to four
// operations (0 none, 1 Add two symbolic letters, 2 Add a symbolic two-line
// form, 3 Add a blank form, 4 SetLimit(symbolic 0..12), 5 Clear(symbolic
// start,end)).  After the load and after every operation a fresh History.Load
// of the file must equal the forms in memory and the reference list.
// A Clear of a proper sub-range is the known defect of Stash.clear (it also
// leaves nil entries in memory that never reach the file), carved out here as
// in C20.stashclear.
func VerifC20Restart(n0, limit0, o1, o2, o3, o4 int) {
	dir := zzC20Dir()
	file := dir + "/history"
	ref := zzC20Ref{forms: zzC20Seed(file, n0), limit: limit0}
	ops := []int{o1, o2, o3, o4}
	var h History
	check := func(step int) {
		var h2 History
		h2.Load(file)
		tag := " (after operation " + strconv.Itoa(step) + ")"
		vrt.Note("restart", step, len(h.forms), len(h2.forms), zzC20FileLen(file), zzC20FileLen(file+".tmp"))
		ok, d := zzC20FormsDiff(h2.forms, h.forms)
		vrt.Assert(ok, "a fresh Load gives a different number/shape of entries than the forms in memory"+tag)
		vrt.Assert(d == 0, "a fresh Load gives different entries than the forms in memory"+tag)
		ok, d = zzC20FormsDiff(h.forms, ref.forms)
		vrt.Assert(ok, "history in memory differs in number/shape from the reference list"+tag)
		vrt.Assert(d == 0, "history in memory differs from the reference list"+tag)
	}
	class := zzC20Try(func() {
		h.SetLimit(limit0)
		h.Load(file)
		check(0)
		for i := 0; i < len(ops); i++ {
			tag := "o" + strconv.Itoa(i+1)
			switch ops[i] {
			case 0:
				continue
			case 1, 2, 3:
				f := zzC20SymForm(tag, ops[i]-1)
				h.Add(f)
				ref.add(f)
			case 4:
				l := vrt.Int(tag + "limit")
				vrt.Assume(0 <= l && l <= 12)
				h.SetLimit(l)
				ref.limit = l
			case 5:
				n := len(ref.forms)
				st, en := vrt.Int(tag+"start"), vrt.Int(tag+"end")
				vrt.Assume(-2 <= st && st <= n+1 && -2 <= en && en <= n+1)
				vrt.Carve("C20-stash-clear-partial-range", zzC20ClearRegion(n, st, en))
				h.Clear(st, en)
				ref.forms = zzC20RefClear(ref.forms, st, en)
			}
			check(i + 1)
		}
	})
	vrt.Reach("restarted")
	vrt.Assert(class == 0, "a history operation panicked")
	zzC20Cleanup(dir)
}

// ---- (iii) process death at every file-system step --------------------------

// zzC20Snapshot makes the directory of the model at this point the directory
// of the native replay: in the engine it reads the two files from the model and
// records them; natively it reads the record and writes the files.
func zzC20Snapshot(tag string, files []string) {
	for i, name := range files {
		t := tag + strconv.Itoa(i)
		var data []byte
		exists, n := 0, 0
		if vrt.Symbolic() {
			if b, err := os.ReadFile(name); err == nil {
				data, exists, n = b, 1, len(b)
			}
		}
		exists = zzC20Export(t+".exists", exists)
		n = zzC20Export(t+".len", n)
		data = zzC20ExportBytes(t+".data", data, n)
		if !vrt.Symbolic() {
			_ = os.Remove(name)
			if exists != 0 {
				if err := os.WriteFile(name, data, 0666); err != nil {
					panic(err)
				}
			}
		}
	}
}

func zzC20FileLen(name string) int {
	b, err := os.ReadFile(name)
	if err != nil {
		return -1
	}
	return len(b)
}

// zzC20PrefixOrSuffix: r is a leading or a trailing part of l.
func zzC20PrefixOrSuffix(r, l []Form) (bool, bool) {
	if len(r) > len(l) {
		return false, false
	}
	okP, dP := zzC20FormsDiff(r, l[:len(r)])
	okS, dS := zzC20FormsDiff(r, l[len(l)-len(r):])
	return okP && dP == 0, okS && dS == 0
}

// VerifC20Crash: the process dies at file-system step k (vrt.Choice over the
// steps of the operation, the last choice is "no death") of
//
//	op 0: History.Add of a symbolic form, n0 entries, limit (compacting iff
//	      n0+1 reaches limit+limit/10),
//	op 1: History.Clear(symbolic start,end).
//
// Then the program "starts again": a fresh History.Load of the surviving
// directory must give the list before the operation or the list after it;
// and a following complete Add must leave file, memory and reference equal.
//
// stale: a history.tmp exists before the operation: > 0 that many arbitrary
// symbolic bytes, < 0 an empty file, 0 no file.
func VerifC20Crash(op, n0, limit, stale int) {
	dir := zzC20Dir()
	file := dir + "/history"
	tmp := file + ".tmp"
	before := zzC20Seed(file, n0)
	if stale != 0 {
		ns := stale
		if ns < 0 {
			ns = 0
		}
		if err := os.WriteFile(tmp, vrt.Bytes("stale", ns), 0666); err != nil {
			panic(err)
		}
	}
	var h History
	h.SetLimit(limit)
	var f Form
	st, en := 0, 0
	partial := false
	if op == 0 {
		f = zzC20SymForm("f", 0)
		first := zzC20Ref{forms: before, limit: limit}
		vrt.Carve("C20-stale-history-tmp-appended", stale > 0 && first.wouldCompact(f))
	} else {
		st, en = vrt.Int("start"), vrt.Int("end")
		vrt.Assume(-1 <= st && st <= n0 && -1 <= en && en <= n0)
		partial = zzC20ClearRegion(n0, st, en)
		vrt.Carve("C20-stash-clear-partial-range", partial)
	}
	k := vrt.Choice("crash", n0+6) // Add: open, n writes (1 without compaction), close, rename, close; Clear (since 4e59358 through history.tmp like the compaction): open, n writes, close, rename, close
	steps, crashed := 0, false
	class := 0
	if vrt.Symbolic() {
		class = zzC20Try(func() { h.Load(file) })
		zzC20FsArm(k)
		c2 := zzC20Try(func() {
			if op == 0 {
				h.Add(f)
			} else {
				h.Clear(st, en)
			}
		})
		steps, crashed = zzC20FsDisarm()
		if !crashed {
			vrt.Assume(k == steps) // every larger k is the same run
			if class == 0 {
				class = c2
			}
		}
	}
	// what the operation leaves in memory (the reference for "after")
	after := zzC20Ref{forms: before, limit: limit}
	if op == 0 {
		after.add(f)
	} else {
		after.forms = zzC20RefClear(before, st, en)
	}
	ci := 0
	if crashed {
		ci = 1
	}
	ci = zzC20Export("crashed", ci)
	steps = zzC20Export("steps", steps)
	class = zzC20Export("class", class)
	zzC20Snapshot("snap", []string{file, tmp})
	crashed = ci != 0

	// ---- the next start ----
	var h2 History
	h2.SetLimit(limit)
	cl2 := zzC20Try(func() { h2.Load(file) })
	loaded := zzC20CopyForms(h2.forms)
	tmpLen := zzC20FileLen(tmp)
	g := zzC20SymForm("g", 0)
	next := zzC20Ref{forms: loaded, limit: limit}
	nextCompacts := next.wouldCompact(g)
	next.add(g)
	var h3 History
	cl3 := zzC20Try(func() {
		h2.Add(g)
		h3.Load(file)
	})
	vrt.Note("crash", k, steps, ci, len(loaded), tmpLen, len(h2.forms), len(h3.forms), zzC20FileLen(file))
	zzC20Cleanup(dir)

	vrt.Reach("restarted")
	vrt.Assert(class == 0, "the operation panicked without a process death")
	vrt.Assert(cl2 == 0, "History.Load after the restart panicked")
	okB, dB := zzC20FormsDiff(loaded, before)
	okA, dA := zzC20FormsDiff(loaded, after.forms)
	if !crashed {
		vrt.Assert(okA && dA == 0, "complete operation: the reloaded history is not the list after the operation")
	} else {
		bp, bs := zzC20PrefixOrSuffix(loaded, before)
		ap, as := zzC20PrefixOrSuffix(loaded, after.forms)
		vrt.Assert(bp || bs || ap || as, "after a process death the reloaded history is neither a leading nor a trailing part of the list before or after the operation")
		// History.Clear truncated the file and rewrote it entry by entry (fixed in 4e59358: history.tmp + rename)
		vrt.Carve("C20-clear-rewrite-in-place-loses-entries", op == 1 && 1 <= k && k-1 < len(after.forms))
		vrt.Assert((okB && dB == 0) || (okA && dA == 0), "after a process death the reloaded history is neither the list before nor the list after the operation")
	}
	// the following complete Add
	vrt.Carve("C20-stale-history-tmp-appended", tmpLen > 0 && nextCompacts)
	vrt.Assert(cl3 == 0, "Add/Load after the restart panicked")
	ok, d := zzC20FormsDiff(h2.forms, next.forms)
	vrt.Assert(ok && d == 0, "after restart and one more Add the history in memory is not the reference list")
	ok, d = zzC20FormsDiff(h3.forms, next.forms)
	vrt.Assert(ok, "after restart and one more Add a fresh Load gives a different number/shape of entries than the reference list")
	vrt.Assert(d == 0, "after restart and one more Add a fresh Load gives different entries than the reference list")
}

// ---- (v) settings: updateConfigFile output is re-readable --------------------

func zzC20Setq(name string, v slip.Object) {
	scope.Eval(slip.List{slip.Symbol("setq"), slip.Symbol(name), v}, 0)
}

var zzC20Strings = []string{"", "%H:%M", "a b", "q\"x", "b\\y", "l\nm", "t\tu", "\x1b[1;94m\u25b6 \x1b[m", "(;#|'`,"}

var zzC20Bases = []int{10, 16, 2, 36, 8}

func zzC20Str(o slip.Object) (string, bool) {
	switch t := o.(type) {
	case nil:
		return "", true
	case slip.String:
		return string(t), true
	}
	return "", false
}

// VerifC20Config: the user changes watched settings; the set hook rewrites
// config.lisp (updateConfigFile).  A "restart" resets the variables and
// evaluates config.lisp with the real reader as SetConfigDir does: every
// variable must get the value it had.
//
//	kind 0: *print-base* = zzC20Bases[bidx], *print-right-margin* = each
//	        fixnum in max(lo,0)..hi (vrt.Choice)
//	kind 1: *repl-history-limit* = each fixnum in lo..hi,
//	        *repl-prompt* = zzC20Strings[sidx]
//
// Strings are concrete because slip prints them through the external ojg
// module (native code, concrete arguments only).
func VerifC20Config(kind, lo, hi, bidx, sidx int) {
	dir := zzC20Dir()
	cfg := dir + "/config.lisp"
	configFilename = cfg
	modifiedVars = map[string]bool{}
	// The fixnum is enumerated, not symbolic: symbolic digits cannot pass the
	// reader's number regexp (native code, concrete arguments only).
	x := int64(lo + vrt.Choice("num", hi-lo+1))
	str := zzC20Strings[sidx]
	base := zzC20Bases[bidx]
	numVar, strVar := "*print-right-margin*", ""
	if kind == 1 {
		numVar, strVar = "*repl-history-limit*", "*repl-prompt*"
	} else if lo < 0 {
		lo = 0
	}
	vrt.Carve("C20-config-print-base-not-readable", kind == 0 && base != 10)
	class := zzC20Try(func() {
		zzC20Setq(numVar, slip.Fixnum(x))
		if kind == 0 {
			zzC20Setq("*print-base*", slip.Fixnum(base))
		} else {
			zzC20Setq(strVar, slip.String(str))
		}
	})
	get := func() (slip.Fixnum, string, bool) {
		a, ok1 := slip.UserPkg.JustGet(numVar).(slip.Fixnum)
		if kind == 0 {
			b, ok2 := slip.UserPkg.JustGet("*print-base*").(slip.Fixnum)
			return a, strconv.Itoa(int(b)), ok1 && ok2
		}
		b, ok2 := zzC20Str(slip.UserPkg.JustGet(strVar))
		return a, b, ok1 && ok2
	}
	reset := func() int {
		return zzC20Try(func() {
			zzC20Setq(numVar, slip.Fixnum(7))
			if kind == 0 {
				zzC20Setq("*print-base*", slip.Fixnum(10))
			} else {
				zzC20Setq(strVar, slip.String("zz "))
			}
		})
	}
	wantN, wantS, okW := get()
	buf, err := os.ReadFile(cfg)
	// the next start: SetConfigDir reads and evaluates the file with writing turned off
	configFilename = ""
	// (a) only the forms that assign an unqualified variable name
	classR := reset()
	var code slip.Code
	nplain := 0
	classA := zzC20Try(func() {
		code = slip.Read(buf, &scope)
		for _, form := range code {
			if l, ok := form.(slip.List); ok && len(l) == 3 {
				if sym, ok := l[1].(slip.Symbol); ok && sym[0] == '*' {
					nplain++
					scope.Eval(form, 0)
				}
			}
		}
	})
	gotN, gotS, okG := get()
	// (b) the whole file, as SetConfigDir evaluates it
	if reset() != 0 {
		classR = 2
	}
	classB := zzC20Try(func() {
		code.Compile()
		code.Eval(&scope, nil)
	})
	allN, allS, okAll := get()
	vrt.Note("config", len(buf), nplain, len(code), classA, classB)
	zzC20Cleanup(dir)
	vrt.Reach("reread")
	vrt.Assert(class == 0 && classR == 0, "setting a watched variable panicked")
	vrt.Assert(err == nil, "config.lisp was not written")
	vrt.Assert(classA == 0, "config.lisp cannot be read again")
	vrt.Assert(nplain == 2, "config.lisp does not hold one (setq name value) per modified variable")
	vrt.Assert(okW && okG && gotN == wantN, "the fixnum setting differs after the restart")
	vrt.Assert(gotS == wantS, "the second setting (*print-base* / *repl-prompt*) differs after the restart")
	// setHook is called with "name" and "repl:name": updateConfigFile writes a
	// second (setq repl:name nil) for every variable of the repl package
	vrt.Carve("C20-config-qualified-name-set-to-nil", kind == 1)
	vrt.Assert(len(code) == 2, "config.lisp holds more forms than modified variables")
	vrt.Assert(classB == 0, "evaluating config.lisp at the next start panics")
	vrt.Assert(okAll && allN == wantN && allS == wantS, "settings differ after evaluating the whole config.lisp")
}

// ---- LineReader.ReadLine ------------------------------------------------------

// VerifC20LineReader: a file of n bytes read with a 16 byte buffer (the
// smallest LineReader allows; History.Load uses 4096): up to two line ends at
// chosen positions (vrt.Choice, position n means none), every other byte
// symbolic and not a line end.  ReadLine must deliver exactly the lines, then
// the unterminated rest together with io.EOF.
func VerifC20LineReader(n int) {
	p1 := vrt.Choice("nl1", n+1)
	p2 := vrt.Choice("nl2", n+1)
	vrt.Assume(p1 <= p2)
	data := vrt.Bytes("d", n)
	for i := 0; i < n; i++ {
		if i == p1 || i == p2 {
			vrt.Assume(data[i] == '\n')
		} else {
			vrt.Assume(data[i] != '\n')
		}
	}
	dir := zzC20Dir()
	file := dir + "/lines"
	if err := os.WriteFile(file, data, 0666); err != nil {
		panic(err)
	}
	// reference: the pieces between the line ends
	var want [][]byte
	start := 0
	for i := 0; i < n; i++ {
		if i == p1 || i == p2 {
			want = append(want, data[start:i])
			start = i + 1
		}
	}
	rest := data[start:]
	var got [][]byte
	var last []byte
	var lastErr error
	class := zzC20Try(func() {
		f, err := os.Open(file)
		if err != nil {
			panic(err)
		}
		defer func() { _ = f.Close() }()
		r := NewLineReader(f, 1)
		for i := 0; i < n+2; i++ {
			line, err := r.ReadLine()
			if err != nil {
				last, lastErr = append([]byte{}, line...), err
				return
			}
			got = append(got, append([]byte{}, line...))
		}
	})
	vrt.Note("lines", len(got), len(last))
	zzC20Cleanup(dir)
	vrt.Reach("read")
	vrt.Assert(class == 0, "ReadLine panicked")
	vrt.Assert(lastErr == io.EOF, "ReadLine does not end with io.EOF")
	vrt.Assert(len(got) == len(want), "ReadLine delivers a different number of lines")
	var d byte
	same := len(last) == len(rest)
	for i := 0; same && i < len(rest); i++ {
		d |= last[i] ^ rest[i]
	}
	for i := 0; i < len(want); i++ {
		if len(got[i]) != len(want[i]) {
			same = false
			break
		}
		for j := 0; j < len(want[i]); j++ {
			d |= got[i][j] ^ want[i][j]
		}
	}
	vrt.Assert(same, "ReadLine delivers lines of a different length")
	vrt.Assert(d == 0, "ReadLine delivers different bytes")
}

// ---- History.Load on any file content ------------------------------------------

// VerifC20LoadAny: a history file of n arbitrary bytes (what an editor, another
// program or an older version may have left).  Load must not fail, and what it
// loads is well formed: no entry without lines, no entry that Add would have
// refused as blank... and writing the loaded entries out again (Clear of
// nothing rewrites the file) and loading them once more is stable.
func VerifC20LoadAny(n int) {
	data := vrt.Bytes("d", n)
	dir := zzC20Dir()
	file := dir + "/history"
	if err := os.WriteFile(file, data, 0666); err != nil {
		panic(err)
	}
	var h, h2 History
	class := zzC20Try(func() {
		h.SetLimit(100)
		h.Load(file)
	})
	first := zzC20CopyForms(h.forms)
	class2 := zzC20Try(func() {
		h.Clear(len(h.forms), -1) // start beyond the end: clears nothing, rewrites the file
		h2.Load(file)
	})
	vrt.Note("loadany", len(first), len(h2.forms), zzC20FileLen(file))
	zzC20Cleanup(dir)
	vrt.Reach("loaded")
	vrt.Assert(class == 0, "History.Load panicked on the file content")
	for i := 0; i < len(first); i++ {
		vrt.Assert(len(first[i]) > 0, "History.Load produced an entry without lines")
	}
	vrt.Assert(class2 == 0, "rewriting and reloading the loaded history panicked")
	ok, d := zzC20FormsDiff(h2.forms, first)
	vrt.Assert(ok, "rewriting the loaded history and loading it again changes the number/shape of the entries")
	vrt.Assert(d == 0, "rewriting the loaded history and loading it again changes the entries")
}

// ---- the stash: expanded format, LoadExpanded ------------------------------------

var zzC20StashForms = []Form{
	{[]rune("(a)")},
	{[]rune("(defun f ()"), []rune("  1)")},
	{[]rune("x")},
	{[]rune("(list 1"), []rune("      2"), []rune("      3)")},
	{[]rune("\"s t\"")},
	{[]rune("(b) (c)")},
	{[]rune("   ")},
	{[]rune("(quote"), []rune(""), []rune("  z)")},
}

// VerifC20Stash: the stash file holds n0 forms (expanded format: the lines,
// then an empty line); LoadExpanded, then Add of forms f1, f2 (index into
// zzC20StashForms, < 0 none), then Clear(symbolic start,end) when clr != 0,
// then Add f3.  After each step a fresh LoadExpanded must give the forms in
// memory = the reference list.
func VerifC20Stash(n0, f1, f2, clr, f3 int) {
	dir := zzC20Dir()
	file := dir + "/sub/stash.lisp"
	var ref []Form
	var buf []byte
	for i := 0; i < n0; i++ {
		f := zzC20StashForms[i%4]
		ref = append(ref, f)
		for _, line := range f {
			buf = append(buf, string(line)...)
			buf = append(buf, '\n')
		}
		buf = append(buf, '\n')
	}
	emptyLine := false
	for _, i := range []int{f1, f2, f3} {
		if i >= 0 {
			for _, line := range zzC20StashForms[i] {
				if len(line) == 0 {
					emptyLine = true
				}
			}
		}
	}
	vrt.Carve("C20-stash-empty-line-dropped", emptyLine)
	var s Stash
	check := func(step int) {
		var s2 Stash
		s2.LoadExpanded(file)
		tag := " (step " + strconv.Itoa(step) + ")"
		vrt.Note("stash", step, len(s.forms), len(s2.forms), zzC20FileLen(file))
		ok, d := zzC20FormsDiff(s2.forms, s.forms)
		vrt.Assert(ok && d == 0, "a fresh LoadExpanded differs from the stash in memory"+tag)
		ok, d = zzC20FormsDiff(s.forms, ref)
		vrt.Assert(ok && d == 0, "the stash in memory differs from the reference list"+tag)
	}
	add := func(i, step int) {
		if i < 0 {
			return
		}
		f := zzC20StashForms[i]
		s.Add(f)
		if !zzC20Blank(f) {
			dup := false
			if n := len(ref); n > 0 {
				ok, d := zzC20FormDiff(ref[n-1], f)
				dup = ok && d == 0
			}
			if !dup {
				ref = append(append([]Form{}, ref...), f)
			}
		}
		check(step)
	}
	class := zzC20Try(func() {
		if err := os.MkdirAll(dir+"/sub", 0755); err != nil {
			panic(err)
		}
		if n0 > 0 {
			if err := os.WriteFile(file, buf, 0666); err != nil {
				panic(err)
			}
		}
		s.LoadExpanded(file)
		check(0)
		add(f1, 1)
		add(f2, 2)
		if clr != 0 {
			n := len(ref)
			st, en := vrt.Int("start"), vrt.Int("end")
			vrt.Assume(-2 <= st && st <= n+1 && -2 <= en && en <= n+1)
			vrt.Carve("C20-stash-clear-partial-range", zzC20ClearRegion(n, st, en))
			s.Clear(st, en)
			ref = zzC20RefClear(ref, st, en)
			check(3)
		}
		add(f3, 4)
	})
	zzC20Cleanup(dir)
	vrt.Reach("restarted")
	vrt.Assert(class == 0, "a stash operation panicked")
}

// ---- settings across several sessions ------------------------------------------

// zzC20Num: a fixnum-or-nil setting as (value, is nil, well typed).
func zzC20Num(name string) (int64, bool, bool) {
	switch t := slip.UserPkg.JustGet(name).(type) {
	case nil:
		return 0, true, true
	case slip.Fixnum:
		return int64(t), false, true
	}
	return 0, false, false
}

// zzC20NewProcess: what a fresh process knows: nothing modified yet, no config
// file in use, the two variables at other values than any session sets.
func zzC20NewProcess(a, b string) int {
	configFilename = ""
	c := zzC20Try(func() {
		zzC20Setq(a, nil)
		zzC20Setq(b, nil)
	})
	modifiedVars = map[string]bool{}
	return c
}

// zzC20Assigns: does the text of config.lisp hold (setq name <fixnum v>)?
func zzC20Assigns(buf []byte, name string, v int64) (found bool, class int) {
	class = zzC20Try(func() {
		for _, form := range slip.Read(buf, &scope) {
			if l, ok := form.(slip.List); ok && len(l) == 3 {
				if sym, ok := l[1].(slip.Symbol); ok && string(sym) == name {
					if num, ok := l[2].(slip.Fixnum); ok && int64(num) == v {
						found = true
					}
				}
			}
		}
	})
	return
}

// VerifC20Sessions: three starts of the REPL through the real start-up code
// (SetConfigDir: MkdirAll, ReadFile config.lisp, read + evaluate it with the
// set hook installed and writing switched off, ReadFile custom.lisp).
//
//	session 1: (setq X x)              -> config.lisp written
//	session 2: start, (setq Y y)       -> config.lisp rewritten: must still assign X
//	session 3: start                   -> X == x and Y == y
//
// X, Y = *print-right-margin*, *print-length* (swapped when swap != 0); x and y
// are symbolic fixnums in lo..hi (sym != 0: printed by the real strconv code,
// read back by the real reader; the engine forks on the digit counts) or
// enumerated over lo..hi by vrt.Choice (sym == 0, cheap).  same != 0: session 2
// sets X again (to y) instead of a different variable.
func VerifC20Sessions(lo, hi, swap, same, sym int) {
	dir := zzC20Dir()
	cfg := dir + "/config.lisp"
	vx, vy := "*print-right-margin*", "*print-length*"
	if swap != 0 {
		vx, vy = vy, vx
	}
	if same != 0 {
		vy = vx
	}
	var x, y int64
	if sym != 0 {
		x, y = vrt.Int64("x"), vrt.Int64("y")
		vrt.Assume(int64(lo) <= x && x <= int64(hi) && int64(lo) <= y && y <= int64(hi))
	} else {
		x = int64(lo + vrt.Choice("x", hi-lo+1))
		y = int64(lo + vrt.Choice("y", hi-lo+1))
	}
	// session 1
	c0 := zzC20NewProcess(vx, vy)
	c1 := zzC20Try(func() {
		SetConfigDir(dir)
		zzC20Setq(vx, slip.Fixnum(x))
	})
	buf1, err1 := os.ReadFile(cfg)
	has1, r1 := zzC20Assigns(buf1, vx, x)
	// session 2
	if zzC20NewProcess(vx, vy) != 0 {
		c0 = 2
	}
	var gx2 int64
	var nil2, ok2 bool
	c2 := zzC20Try(func() {
		SetConfigDir(dir)
		gx2, nil2, ok2 = zzC20Num(vx)
		zzC20Setq(vy, slip.Fixnum(y))
	})
	buf2, err2 := os.ReadFile(cfg)
	wantX := x
	if same != 0 {
		wantX = y
	}
	hasX, r2 := zzC20Assigns(buf2, vx, wantX)
	hasY, r3 := zzC20Assigns(buf2, vy, y)
	// session 3
	if zzC20NewProcess(vx, vy) != 0 {
		c0 = 2
	}
	c3 := zzC20Try(func() { SetConfigDir(dir) })
	gx3, nilx3, okx3 := zzC20Num(vx)
	gy3, nily3, oky3 := zzC20Num(vy)
	vrt.Note("sessions", len(buf1), len(buf2), has1, hasX, hasY, gx2, gx3, gy3)
	zzC20Cleanup(dir)
	vrt.Reach("third-start")
	vrt.Assert(c0 == 0, "resetting the variables panicked")
	vrt.Assert(c1 == 0 && err1 == nil && r1 == 0, "session 1: start-up or the setting change failed, or config.lisp is unreadable")
	vrt.Assert(has1, "session 1: config.lisp does not assign the changed variable")
	vrt.Assert(c2 == 0, "session 2: start-up from config.lisp or the setting change panicked")
	vrt.Assert(ok2 && !nil2 && gx2 == x, "session 2: the setting saved by session 1 is not restored at start-up")
	vrt.Assert(err2 == nil && r2 == 0 && r3 == 0, "session 2: config.lisp is unreadable after the change")
	vrt.Assert(hasY, "session 2: config.lisp does not assign the variable changed in this session")
	vrt.Assert(hasX, "session 2: config.lisp no longer assigns the variable restored from it at start-up")
	vrt.Assert(c3 == 0, "session 3: start-up from config.lisp panicked")
	vrt.Assert(okx3 && !nilx3 && gx3 == wantX, "session 3: the setting of session 1 is lost")
	vrt.Assert(oky3 && !nily3 && gy3 == y, "session 3: the setting of session 2 is lost")
}
