#!/usr/bin/env python3
"""Regenerates the C02.ext.* obligations inside /verif/harness/obligations.d/C02.json and keeps the
other (hand-written) C02 obligations of that file as they are.
Usage: python3 C02.gen.py [out.json]"""
import json, os, sys

HERE = os.path.dirname(os.path.abspath(__file__))
PATH = os.path.join(HERE, "C02.json")
STUB = {"(*github.com/ohler55/slip.reader).resolveToken": "github.com/ohler55/slip.zzStubResolveToken"}
STUBNOTE = ("reader.resolveToken replaced by the injective stub Symbol(token) (delivery independence only needs the "
            "same token bytes to reach it); ")
ROOTX = ["zz_verif_c02.go"]

def ob(id_, pkg, entry, quick, thorough, note, stub=True, carves=None, extra=None, **kw):
    o = {"id": id_, "property": "C02", "pkg": pkg, "entry": entry, "reach": ["compared"],
         "cases": {"quick": quick, "thorough": thorough}, "note": note}
    if stub:
        o["overrides"] = dict(STUB)
        o["note"] = STUBNOTE + note
    if carves:
        o["carves"] = carves
    if extra:
        o["extra_files"] = extra
    o.update(kw)
    return o

def cuts2(n):
    return [(a, b) for a in range(n + 1) for b in range(a, n + 1)]

out = []

# ---- (5) real resolveToken ----
q, t = [], []
for n in (1, 2):
    for a, b in cuts2(n):
        if a == 0 and b != 0 and b != n:
            continue        # a first empty piece adds nothing over the single cut b
        for sel in (0, 1, 2, 3):
            t.append([n, a, b, sel])
            if (sel == 0 and (a, b) in ((1, 1), (1, 2)) and n == 2) or (n == 2 and (a, b) == (1, 1)) or (n == 1 and a == 1 and sel == 0):
                q.append([n, a, b, sel])
for a, b in ((1, 1), (2, 2), (1, 2), (1, 3), (2, 3), (0, 0)):
    t.append([3, a, b, 5])
q.append([3, 1, 2, 5])
out.append(ob("C02.ext.resolve", ".", "VerifC02Resolve", q, t,
   "the REAL reader.resolveToken (regexp match through the engine's regexp model, strconv.ParseInt, bignum and ratio "
   "construction): n symbolic bytes over a number alphabet (sel 0: 0 1 9 + - / . a blank open-paren with *read-base* 10; "
   "sel 1: 0 1 9 a f g + - / . blank paren with *read-base* 16; sel 2: 0 1 2 + - / . blank paren with *read-base* 2; sel 3: 0 9 a z "
   "+ - / . blank paren with *read-base* 36; sel 5 (three bytes): 1 9 + - a blank paren, no '/' and no '.': a ratio of symbolic digits has no engine model and a float needs concrete text), two cut positions; whole read vs "
   "read in pieces compared by type and value. The engine forks per byte class here, so this is close to an enumeration of the "
   "texts with the comparison decided by the solver. Floats, long integers and @time need concrete text (strconv.ParseFloat, "
   "math/big, time): see C02.ext.floats. Delivery independence of resolveToken itself follows from C02.cut1/cut2 (same token "
   "bytes reach it) and from it being a function of the token bytes and the reader's base/float settings only.",
   stub=False, max_steps=60000000))

nfl = 29
out.append(ob("C02.ext.floats", ".", "VerifC02Floats",
   [[i, 0] for i in range(nfl)] + [[0, 1], [3, 2], [8, 2], [4, 3], [28, 1]],
   [[i, f] for i in range(nfl) for f in range(4)],
   "bounded enumeration executed by the engine (floats and text handed to strconv/math/big/time have to be concrete): "
   "29 fixed number-like texts (decimal, e/d/s/f/l exponents, overflow to infinity, ratios, zero denominator, malformed "
   "numbers that fall back to symbols, fixnum/bignum border, @time) x every pair of cut positions x byte-at-a-time x "
   "*read-default-float-format* (0 double, 1 single, 2 long, 3 short); real resolveToken", stub=False))

# ---- (2) RuneReader ----
q, t = [], []
for mode in range(5):
    for n in range(1, 6):
        for k in (1, 2, 3, 4):
            if k > n and k != 4:
                continue
            c = [n, k, mode]
            if n <= 5:
                t.append(c)
            if n <= 4 and (mode in (0, 1) or k in (1, 4)) and not (mode == 2 and n == 4 and k != 1):
                q.append(c)
out.append(ob("C02.ext.runereader", ".", "VerifC02RuneReader", q, t,
   "RuneReader (ReadRune/UnreadRune/PushRune/ReadByte/Read) over a reader that hands out at most k bytes per Read call: n "
   "symbolic bytes assumed to be well-formed UTF-8 by an independent decoder written from RFC 3629 (so every mix of 1-4 byte "
   "sequences that fits in n bytes, cut everywhere by k=1), no NUL character (RuneReader uses rune 0 as 'nothing read'); "
   "modes: 0 ReadRune to EOF, 1 Unread+reread after every rune and a second Unread is refused, 2 PushRune of a symbolic rune "
   "first, 3 ReadRune+UnreadRune then bulk Read returns the whole text, 4 ReadByte over arbitrary bytes with unread of ASCII "
   "bytes. Carve: a 3/4-byte character whose continuation bytes arrive in more than one Read call.",
   stub=False))
out.append(ob("C02.ext.runereader.kf", ".", "VerifC02RuneReader", [[3, 1, 0]], [[3, 1, 0], [4, 2, 0]],
   "known-finding probe host for C02-runereader-short-read (same entry as C02.ext.runereader)",
   stub=False, carves=["C02-runereader-short-read"]))

out.append(ob("C02.ext.escape", ".", "VerifC02Escape", [[0, 1], [0, 3], [1, 2]], [[kind, k] for kind in (0, 1) for k in (1, 2, 3, 4, 5)],
   "a string literal with a \\u00XX (kind 0) or \\U0001F6XX (kind 1) escape whose last two hex positions are symbolic bytes (all 256 "
   "values: digit, upper and lower hex letter, anything else; more symbolic positions make utf8.EncodeRune of the symbolic rune too "
   "slow for the solver), followed by one more character, the closing quote and a symbol; read whole vs in pieces of at most k bytes "
   "(reader.runeAppendByte and runeMode across block boundaries)"))

# ---- (3) ReadStreamPush ----
q = [[n, k, 1] for n in (2, 3) for k in range(n + 1)]
t = q + [[4, k, 1] for k in range(5)] + [[n, k, 0] for n in (1, 2) for k in range(n + 1)]
out.append(ob("C02.ext.push", ".", "VerifC02Push", q, t,
   "ReadStreamPush with a buffered channel large enough never to block (the engine runs no goroutines), drained after the "
   "call; one cut; alphabet as C02.cut1 (alpha 1 = 12-byte alphabet, 0 = all bytes)"))

# ---- (6) Compile entry points ----
out.append(ob("C02.ext.compile", ".", "VerifC02Compile", [[n, 1] for n in (1, 2, 3)], [[n, 1] for n in (1, 2, 3, 4)],
   "Compile / CompileString / ReadString+Code.Compile on the same symbolic text over the 12-byte alphabet: same outcome "
   "class and structurally equal last object", max_depth=1500))

# ---- end of text delimits like a newline ----
out.append(ob("C02.ext.eofdelim", ".", "VerifC02EofDelim",
   [[1, 0], [2, 0], [3, 0], [4, 1]], [[1, 0], [2, 0], [3, 0], [4, 1], [5, 1]],
   "text vs text+newline: when both are read as values they are the same objects, and a text accepted with the newline is "
   "accepted without it; all byte strings up to 3, 12-byte alphabet beyond; texts ending directly after a character-starting "
   "#\\ excluded by an independent scanner (there the newline is the character)"))
out.append(ob("C02.ext.eofdelim.kf", ".", "VerifC02EofDelim", [[2, 0]], [[2, 0], [3, 0]],
   "known-finding probe host for C02-eof-drops-sharp-form", carves=["C02-eof-drops-sharp-form"]))

# ---- (1) Lisp-level readers (package cl) ----
KIND = "kind 0: input-stream over a reader handing out at most k bytes per Read (not seekable: byte-at-a-time branch of read), " \
       "kind 1: string stream (seekable, one block), kind 2: seekable stream in blocks of at most k bytes (ReadStream one-form mode " \
       "with carry + Seek back); alphabets: sel 1 = 12-byte alphabet, sel 2 = it plus ` @ * x newline, sel 3 = ( ) \" ' ; a 1 blank " \
       "newline (non-seekable kind: the forms it cannot read at all are the known finding C02-read-nonseek-prefix-error, hosted by " \
       "sel 4 = | \\ # x \" a blank); texts the whole read rejects are left out (assumed away); "
q, t = [], []
for n in range(0, 5):
    # kind 1
    sel = 2 if n <= 3 else 1
    t.append([n, 1, 0, sel, 0]); t.append([n, 1, 0, sel, 1])
    if n <= 3:
        q.append([n, 1, 0, sel, 0])
        if n <= 2:
            q.append([n, 1, 0, sel, 1])
    # kind 2
    for k in (1, 2):
        if n == 0 and k == 2:
            continue
        t.append([n, 2, k, 1, 0])
        if n <= 3:
            q.append([n, 2, k, 1, 0])
    t.append([n, 2, 1, 1, 1])
    # kind 0
    t.append([n, 0, 1, 3, 0]); t.append([n, 0, 1, 3, 1])
    q.append([n, 0, 1, 3, 0])
    if n <= 3:
        q.append([n, 0, 1, 3, 1])
t += [[5, 0, 1, 3, 0], [3, 0, 1, 4, 0], [4, 0, 1, 4, 0]]
q += [[3, 0, 1, 4, 0]]
out.append(ob("C02.ext.lispread", "pkg/cl", "VerifC02LispRead", q, t,
   "(read stream [nil eof-value]) evaluated through the registry again and again on one stream over n symbolic bytes: the objects "
   "equal, in order, those of ReadString of the whole text, then end-of-file is signalled (eofMode 0) or the eof value returned "
   "(eofMode 1); " + KIND, max_steps=80000000, max_depth=1500))

q, t = [], []
for n in range(1, 5):
    for j in (0, 1):
        if n < 2 * j + 1:
            continue
        sel = 2 if n <= 3 else 1
        t.append([n, 1, 0, sel, j])
        t.append([n, 2, 1, 1, j]); t.append([n, 2, 2, 1, j])
        t.append([n, 0, 1, 3, j]); t.append([n, 0, 2, 3, j])
        if n <= 3:
            q.append([n, 1, 0, sel, j]); q.append([n, 2, 1, 1, j])
        if n <= 3 or j == 0:
            q.append([n, 0, 1, 3, j])
t += [[5, 0, 1, 3, 0], [5, 0, 1, 3, 1]]
out.append(ob("C02.ext.lisprest", "pkg/cl", "VerifC02LispRest", q, t,
   "after j+1 calls of (read stream) the stream is drained with (read-char stream nil nil): what is left is a suffix of the text, "
   "it reads as exactly the remaining objects and the consumed part reads as exactly the objects returned; " + KIND,
   max_steps=80000000, max_depth=1500))
out.append(ob("C02.ext.lispread.kf", "pkg/cl", "VerifC02LispRest", [[3, 0, 1, 3, 0], [3, 0, 1, 4, 0]], [[3, 0, 1, 3, 0], [3, 0, 1, 4, 0]],
   "known-finding probe host for C02-read-nonseek-swallows-delimiter (sel 3) and C02-read-nonseek-prefix-error (sel 4); regions by "
   "independent scanners over those alphabets",
   carves=["C02-read-nonseek-swallows-delimiter", "C02-read-nonseek-prefix-error"]))

RFS = ("(read-from-string text eof-error-p eof-value :start s :end e [:preserve-whitespace t]) through the registry; n symbolic bytes "
       "over ( ) \" ' a 1 blank newline (sel 5) or ( ) a blank (sel 6), s and e symbolic with 0<=s<=e<=n; sub-texts the whole read "
       "rejects are assumed away; oracle: first object of ReadString of the sub-text, position inside (s,e], text[p:e] reads as the "
       "remaining objects and text[s:p] as exactly the first; an empty sub-text gives a condition (eofMode 0) or the eof value "
       "(eofMode 1; a non-keyword eof value, keywords are taken for options). ")
S = [-1, -1]
q = [[n, 5, pw, 0] + S for n in (1, 2) for pw in (0, 1)] + [[3, 5, 0, 0] + S] + [[n, 5, 0, 1] + S for n in (0, 1, 2)] + [[4, 6, 0, 0] + S]
t = q + [[3, 5, 1, 0] + S, [4, 6, 1, 0] + S, [4, 5, 0, 0, -1, 4], [3, 5, 0, 1] + S, [5, 6, 0, 0] + S]
out.append(ob("C02.ext.readfromstring", "pkg/cl", "VerifC02ReadFromString", q, t, RFS + "Last two parameters -1 -1: start and end symbolic.",
   max_steps=80000000, max_depth=1500, max_case_s=1800))
out.append(ob("C02.ext.readfromstring.kf", "pkg/cl", "VerifC02ReadFromString", [[5, 6, 0, 0, 1, 5], [1, 6, 0, 1] + S], [[5, 6, 0, 0, 1, 5], [1, 6, 0, 1] + S],
   "known-finding probe host (alphabet ( ) a blank; n=5 with :start 1 :end 5 fixed is the shortest text on which the misaligned "
   "white-space skip loses an object)",
   carves=["C02-read-from-string-skip-misaligned", "C02-read-from-string-start-at-end"]))
out.append(ob("C02.ext.readfromstring.mb", "pkg/cl", "VerifC02ReadFromStringMB", [[2, 6, 0], [2, 6, 1], [3, 6, 1]], [[2, 6, 0], [3, 6, 0], [2, 6, 1], [3, 6, 1], [4, 6, 1]],
   "bounded: one concrete two-byte character inside a string literal in front of (where 0) or behind (where 1) m symbolic bytes over "
   "( ) a blank; the reported position is used as :start of a second call which has to return the second object",
   carves=["C02-read-from-string-byte-position"]))

# ---- (4) load ----
out.append(ob("C02.ext.load", "pkg/cl", "VerifC02Load", [[1, 1], [2, 1], [3, 2]], [[1, 1], [2, 1], [2, 3], [3, 1], [3, 2], [3, 64]],
   "(load stream) of \"(setq zzv '<token>) (setq zzw zzv)\" with a token of n symbolic bytes over digits + - a delivered in "
   "pieces of at most k bytes, real resolveToken: same outcome and same value of zzw as ReadString+Compile+Eval of the text; "
   "loading a named file goes through os.ReadFile (not run by the engine), then the same code path", stub=False))

# ---- (3) gi:read-each / gi:read-push ----
q = [[n, k, p] for p in (0, 1) for n, k in ((2, 1), (3, 1), (3, 2))]
t = q + [[n, k, p] for p in (0, 1) for n, k in ((1, 1), (4, 1), (4, 3))]
out.append(ob("C02.ext.gi", "pkg/gi", "VerifC02GiRead", q, t,
   "(gi:read-each stream function) with a collecting function object (push 0) and (gi:read-push stream channel) with a buffered "
   "channel that never fills, drained after the call (push 1; the engine runs no goroutines, so a consumer running in parallel is "
   "not modelled); the stream hands out at most k bytes per Read; n symbolic bytes over the 12-byte alphabet"))

def main():
    cur = [o for o in json.load(open(PATH)) if not o["id"].startswith("C02.ext.")]
    dst = sys.argv[1] if len(sys.argv) > 1 else PATH
    json.dump(cur + out, open(dst, "w"), indent=1)
    print("wrote", dst, len(cur), "kept +", len(out), "generated")
    for o in out:
        print("  %-28s quick %3d thorough %3d" % (o["id"], len(o["cases"]["quick"]), len(o["cases"]["thorough"])))

main()
