#!/usr/bin/env python3
"""Regenerates the extension obligations (ids C17.x.*) inside C17.json.
The three lockset obligations (C17.pkg, C17.generic, C17.sync) are kept as they are."""
import json, os

HERE = os.path.dirname(os.path.abspath(__file__))
PATH = os.path.join(HERE, "C17.json")

MODEL = ("cooperative task model of engine/x_c17.go: `go` = new task on the run queue, a task runs until it blocks "
         "(receive on empty, send on full/unbuffered without waiting receiver, select with no ready case, Lock of a held mutex) "
         "or sleeps (virtual clock: it jumps to the earliest sleep/time.After deadline when no task can run), then the next runnable task in "
         "round-robin order continues; all tasks blocked and no deadline pending = deadlock")
ONE = ("ONE schedule per program is explored%s; the solver decides the assertions for all payload values on that schedule; "
       "data-race freedom under all schedules is the subject of the lockset obligations")
ASSUME = ["goroutines are modelled as cooperative tasks: no preemption between scheduling points (channel operations, Lock/Unlock, sleep, go, task end)",
          "time is virtual: computation takes no time, sleep/time-after durations only order the wake-ups",
          "native replay runs the same slip program on real goroutines and asserts only schedule-independent facts; a hang is detected by an 8 s watchdog"]


def ob(id, pkg, entry, quick, thorough, note, reach, **kw):
    o = {"id": id, "property": "C17", "pkg": pkg, "entry": entry, "reach": reach, "replay_race": True,
         "cases": {"quick": quick, "thorough": thorough}, "note": note, "assumptions": ASSUME}
    o.update(kw)
    return o


new = []

# FIFO / exactly once: [capacity, k, mode, sched]
q, t = [], []
for mode in (0, 1, 2):
    for cap in (0, 1, 2, 4):
        for k in (1, 2, 3, 4, 6):
            c = [cap, k, mode, 0]
            t.append(c)
            if k in (1, 3) and cap in (0, 1, 4) or (k == 4 and cap == 2):
                q.append(c)
for mode in (0, 1, 2):
    for cap in (0, 1, 2):
        q.append([cap, 2, mode, 2])
        t.append([cap, 2, mode, 2])
        t.append([cap, 3, mode, 3])
for cap in (0, 1, 4):
    q.append([cap, 3, 3, 0])
    for k in (1, 2, 3, 4):
        t.append([cap, k, 3, 0])
q += [[0, 2, 3, 2], [1, 2, 3, 2]]
t += [[0, 2, 3, 2], [1, 2, 3, 2], [2, 2, 3, 2], [0, 3, 3, 2]]
new.append(ob("C17.x.fifo", "pkg/gi", "VerifC17Fifo", q, t,
              "k symbolic fixnums (32-bit) pushed with channel-push by one routine through a channel of the given capacity (0 = unbuffered) are "
              "received by channel-pop exactly once and in the order pushed; the pop after close+drain returns nil; channel-length is 0. "
              "mode 0: producer started by gi:run, main pops; mode 1: consumer routine forwards to a result channel, main pushes; "
              "mode 2: producer -> forwarding routine -> main over two channels; mode 3: two producers (k items each, symbolic values from disjoint ranges "
              "[0,2^20) and [2^20,2^21)) into one channel, main pops 2k: the items of each producer arrive in its order, each exactly once, whatever the "
              "interleaving. Oracle: reference FIFO queue(s) in the harness. "
              + MODEL + ". " + ONE % " (cases with sched=n>0: additionally every combination of up to n alternative scheduling decisions)"
              + ". A deadlock is a violation here.",
              ["popped"], max_depth=2000))

def cases1(vals):
    return [[v] for v in vals]

new.append(ob("C17.x.close", "pkg/gi", "VerifC17Close", cases1(range(5)), cases1(range(5)),
              "channel-close semantics with symbolic payloads: items buffered before the close are delivered in order and every later pop returns nil without "
              "blocking; channel-push on a closed channel and a second channel-close are Lisp conditions (caught by ignore-errors), never a Go panic "
              "reaching the caller; close wakes a routine parked in channel-pop (nil) and ends a range in another routine. "
              + MODEL + ". " + ONE % "", ["closed"]))

q, t = [], []
for mode in (0, 1):
    for cap in (0, 1, 3):
        for k in (0, 1, 2, 3, 5):
            t.append([cap, k, mode, 0])
            if (k in (0, 3) and cap in (0, 1)) or (k == 2 and cap == 3):
                q.append([cap, k, mode, 0])
    q.append([1, 2, mode, 2])
    t.append([1, 2, mode, 2])
    t.append([0, 3, mode, 2])
new.append(ob("C17.x.range", "pkg/gi", "VerifC17Range", q, t,
              "gi:range over a channel calls the function exactly once per element, in the order pushed (k symbolic fixnums), and returns when the channel "
              "is closed; mode 0: producer routine, main ranges; mode 1: a routine ranges and forwards to a second channel that main ranges over. "
              "Oracle: the pushed sequence. " + MODEL + ". " + ONE % " (sched=n>0: plus every combination of up to n alternative scheduling decisions)",
              ["ranged"], max_depth=2000))

new.append(ob("C17.x.select", "pkg/gi", "VerifC17Select", cases1(range(9)), cases1(range(9)),
              "gi:select over two slip channels (the fixed 10-way Go select of select.go): a value is taken only from a clause whose channel is ready "
              "(holding a value, or closed), it is bound to the clause variable, exactly the forms of that clause are evaluated once (hit counters), "
              "one value is removed from that channel and none from the other; with both ready the engine forks on a solver-visible choice and both "
              "outcomes are required to be reached (tags chose1, chose2) — natively either outcome is accepted; with none ready select blocks until a "
              "routine pushes; clause that is not a list = condition; clause without forms returns nil. time-after clauses: time is virtual in the engine (the clock jumps to the earliest "
              "sleep/timer deadline when no task can run), so a timer clause is ready only after everything else is blocked. Not covered: "
              "the reflect.Select path for more than 8 channels / foreign channel types (reflect is not modelled). " + MODEL + ". " + ONE % "",
              ["chose1", "chose2", "badclause", "noforms", "timeout"]))

new.append(ob("C17.x.select-two", "pkg/gi", "VerifC17SelectTwo", cases1(range(3)), cases1(range(3)),
              "two (three) routines started by gi:run from the same scope wait in gi:select on one channel; the clause body blocks on an unbuffered gate "
              "channel between receiving the item and forwarding it, so every routine holds a received item while the others receive theirs: the "
              "forwarded items are a permutation of the pushed ones (symbolic 32-bit payloads, multiset equality decided by the solver) - the clause "
              "variable must belong to the evaluation of the select, not to the scope the routines share. Variants: 2 consumers, 3 consumers, a second "
              "never-ready clause (consumers started from a dotimes would write the loop variable of the scope the routines read: the recorded finding C17-run-shares-unlocked-scope, left out). " + MODEL + ". " + ONE % "",
              ["forwarded"]))

q = [[c, 3, m, mode] for c in (0, 2) for m in (2, 5) for mode in (0, 1, 2)]
t = [[c, k, m, mode] for c in (0, 1, 2, 4) for k in (2, 3, 4) for m in (1, 2, 5, 6, 2 ** 4 - 1) if m < 2 ** k for mode in (0, 1, 2)]
new.append(ob("C17.x.nil-items", "pkg/gi", "VerifC17NilItems", q, t,
              "nil as a channel item: a routine pushes k items, those selected by a mask are nil and the others symbolic 32-bit fixnums, and closes the channel; "
              "the consumer (gi:range with a function, channel-pop k times, select k times) receives exactly the pushed sequence, nil items in their places, "
              "nothing lost after a nil, the producer never left blocked. capacities 0/1/2/4, k = 2..4. " + MODEL + ". " + ONE % "",
              ["received"]))

new.append(ob("C17.x.mutex-exit", "pkg/gi", "VerifC17MutexExit", cases1(range(7)), cases1(range(7)),
              "with-mutex-lock leaves the mutex free after a normal exit, a return-from out of the body, an error in the body caught outside by ignore-errors "
              "or gi:recover, an error under unwind-protect, a non-mutex argument (condition, nothing locked) and an empty body: the same mutex is taken "
              "again afterwards (a held mutex = deadlock = violation; natively the watchdog), vrt.HeldLocks() is unchanged. Values are symbolic fixnums. "
              "What the body returns after a return-from is C07's subject (C07-body-continues-after-exit) and not asserted here beyond the single-form body.",
              ["exited"]))

q = [[1, 1, 0], [2, 1, 0], [2, 2, 0], [1, 1, 1], [2, 1, 1]]
t = q + [[3, 3, 0], [4, 2, 0], [1, 1, 2], [2, 2, 1], [3, 1, 1]]
new.append(ob("C17.x.counter", "pkg/gi", "VerifC17Counter", q, t,
              "two routines started by gi:run add symbolic 32-bit d0 (n1 times) and d1 (n2 times) to a package-level counter under with-mutex-lock on one "
              "mutex; inside the critical section the value is read, the routine yields (sleep) and then writes back, so the explored schedule hands the "
              "processor to the other routine while the lock is held: the final value is n1*d0+n2*d1 (no lost update), the overlap detector never sees two "
              "routines inside, no mutex is held at the end. params [n1,n2,sched]. " + MODEL + ". " + ONE %
              " (sched=n>0: plus every combination of up to n alternative scheduling decisions at go/channel/lock/unlock/sleep points)",
              ["counted"], int_mode=True, max_depth=4000))

new.append(ob("C17.x.hash-counter", "pkg/gi", "VerifC17HashCounter", [[1, 1, 0], [2, 2, 0], [1, 1, 1]], [[1, 1, 0], [2, 2, 0], [3, 2, 0], [1, 1, 1], [2, 1, 1]],
              "as C17.x.counter with the counter kept in an entry of a hash table ('a hash of counters') that is created before the routines start and "
              "touched only inside with-mutex-lock (slip hash tables have no lock of their own). params [n1,n2,sched]. " + MODEL + ". " + ONE % " (sched as above)",
              ["counted"], int_mode=True, max_depth=4000))

new.append(ob("C17.x.syncinst", "pkg/gi", "VerifC17SyncInst", [[0, 0], [1, 0], [2, 0], [3, 0], [4, 0], [5, 0], [6, 0], [2, 1]],
              [[0, 0], [1, 0], [2, 0], [3, 0], [4, 0], [5, 0], [6, 0], [2, 1], [3, 1], [6, 1], [2, 2]],
              "synchronizedp / set-synchronized round trip on a CLOS instance (kind 0) and a flavors instance (kind 1) and a structure object (kind 5): nil, t, t (idempotent), nil, the slot "
              "written meanwhile keeps its value; kinds 2/3/6 (CLOS/flavors/struct): two routines write different slots and a common slot of a synchronized instance with symbolic "
              "values, yielding between the writes: no update is lost, the common slot holds one of the two values, the instance mutex is free at the end; "
              "kind 4: non-instance argument = condition. Kind 5 also calls one structure accessor from two call sites of one function with different arguments, "
              "and kind 6 lets two routines compile accessor calls (natively under the race detector): fixed finding C17-defstruct-accessor-shared-callsite "
              "(commit 2852cf1). params [kind,sched]. " + MODEL + ". " + ONE % " (sched as above)", ["sync"]))

new.append(ob("C17.x.blocks", "pkg/gi", "VerifC17Blocks", cases1(range(6)), cases1(range(6)),
              "the primitives block when they have to: pop on an empty open channel, push beyond the capacity, push on an unbuffered channel without "
              "receiver, select over empty channels, range over an open drained channel, a third pop after two producers ended — the engine must end "
              "the path with every task blocked (reach tag deadlock); returning from the operation is the violation. A counterexample is replayed natively with a 1.5 s watchdog (the program must still be blocked then).", ["deadlock"]))

new.append(ob("C17.x.run-error", "pkg/gi", "VerifC17RunError", cases1([0, 1, 3]), cases1([0, 1, 3]),
              "an error inside the form given to gi:run: handled inside the routine (kind 0) the program goes on; not handled (kind 1: (error ..), "
              "kind 2: channel-push on a channel closed meanwhile) the panic leaves the goroutine and the Go runtime ends the process — known finding "
              "C17-run-error-kills-process, carved; natively confirmed by the crash of the replay process. kind 3: the routine signals and handles "
              "a condition in the let scope it shares with its parent; the parent's variable `message` (symbolic value) keeps its value "
              "(fixed finding C17-condition-slots-written-to-caller-scope, commit 43cb9f3). Kind 2 (a channel closed while a routine is blocked pushing on it) is no longer a case: the Go race detector, under which every C17 witness is replayed, reports close-versus-send as a race of the program itself, so a passing engine path could not be validated natively; that the routine ends with an error and the process lives on was confirmed natively without the race detector when 6ba5f44 was made.", ["ran"],
              carves=["C17-run-error-kills-process"]))

new.append(ob("C17.x.shared-scope", "pkg/gi", "VerifC17SharedScope", cases1(range(2)), cases1(range(2)),
              "the documented with-mutex-lock pattern: a counter in a variable of the scope shared with the routine started by gi:run, updated only under "
              "with-mutex-lock; lockset monitor on that scope's variable table with the program's mutex as the required lock; shared=0 keeps the counter "
              "in a package-level variable instead (no unguarded access; natively clean under the race detector); shared=1 is known finding "
              "C17-run-shares-unlocked-scope (lookups of m/done/the counter are outside the lock while setq writes the same Go map), natively confirmed by the race detector.",
              ["ran"], int_mode=True, carves=["C17-run-shares-unlocked-scope"]))

q = [[p, 0] for p in range(8)] + [[0, 2], [4, 1]]
t = q + [[1, 2], [3, 1], [5, 2], [7, 2]]
new.append(ob("C17.x.gomodel", "pkg/gi", "VerifC17GoModel", q, t,
              "differential check of the engine's goroutine/channel/select/Mutex/RWMutex/WaitGroup/virtual-time model against the Go runtime: eight plain Go "
              "programs with a schedule-independent outcome (ping-pong over unbuffered channels, buffered producer + range + comma-ok + len/cap, select with "
              "default / send cases / two ready cases, WaitGroup + mutex-guarded sum with a sleep inside the lock, worker pool, close waking receivers, a send on a closed channel panicking in the sender, "
              "sleep ordering + time.After, RWMutex writer exclusion) run in the engine with a symbolic payload; assertions decided by the "
              "solver, outcome noted and compared with the native run on real goroutines by the witness validation. params [program, sched].", ["ran"]))

keep = [o for o in json.load(open(PATH)) if not o["id"].startswith("C17.x.")]
json.dump(keep + new, open(os.environ.get("C17_OUT") or PATH, "w"), indent=1)
print("C17.json: %d kept + %d generated obligations; quick cases %d, thorough %d" % (
    len(keep), len(new), sum(len(o["cases"]["quick"]) for o in new), sum(len(o["cases"]["thorough"]) for o in new)))
