# Generator of /verif/harness/obligations.d/C16.json (case lists and notes of the C16 obligations).  Usage: python3 C16.gen.py [out.json]
import json, sys, itertools
OV={"github.com/ohler55/slip.TypePanic":"github.com/ohler55/slip/pkg/cl.zzC16StubTypePanic",
    "github.com/ohler55/slip.ErrorPanic":"github.com/ohler55/slip/pkg/cl.zzC16StubErrorPanic"}
STUBNOTE=(" Stubs: slip.TypePanic and slip.ErrorPanic are replaced (engine only; the native replay uses the real ones) by functions that "
 "panic with a *slip.Panic without formatting the message: the real ones print the offending object (decimal text of a symbolic fixnum forks per digit count; fmt with symbolic arguments cannot be interpreted) and C16 never looks at condition text, only at `a condition was signalled`. "
 "Functions are called as FindFunc(name).Create(nil).(Caller).Call(scope, args, 0), i.e. the registered function object on evaluated arguments, not through Function.Eval (which wraps Go faults into *slip.Panic and prints the call into the stack trace). "
 "Symbolic text bytes are restricted to ASCII 0..127 and symbolic characters to runes 0..127 (a symbolic byte >= 0x80 forks utf8 decoding 256 ways); non-ASCII text comes from concrete grids. Floats, ratios and bignums beyond int64 next to floats are concrete grids (engine: floats concrete only).")
INTMODE=("VerifC16Pair","VerifC16Refl","VerifC16Trans","VerifC16GoEqual","VerifC16Hash")
def ob(id, entry, quick, thorough=None, reach=(), note="", carves=(), stub=True, **kw):
    d={"id":"C16."+id,"property":"C16","pkg":"pkg/cl","entry":entry,
       "cases":{"quick":quick,"thorough":thorough if thorough is not None else quick},
       "reach":list(reach),"note":note+(STUBNOTE if stub else ""),
       "assumptions":["eq is modelled by the engine as identity of the interface data word (pointer, box id, or the runtime's static storage for small integers); only statements that hold for every boxing are asserted about eq",
                      "sxhash: ojg sen.Bytes runs natively on the plain data returned by the object's interpreted Simplify() (engine/x_c16.go); cross-checked against the native run by witness replay",
                      "the class registry is the one of the packages loaded by the engine/replay (cl, clos, flavors, generic, gi, bag): 67 classes"]}
    if stub: d["overrides"]=OV
    if carves: d["carves"]=list(carves)
    d.setdefault("max_case_s",300)
    if entry in INTMODE:
        d["int_mode"]=True
        d["note"]+=" int_mode: symbolic machine integers are SMT Int terms with explicit wrap (the comparisons with math/big values stay in linear integer arithmetic)."
    d.update(kw)
    return d
def L(a,b): return 100+50*a+b
def V(a,b): return 3000+50*a+b
def uniq(l):
    out=[]
    for x in l:
        if x not in out: out.append(x)
    return out
SYMNUM=(1,2,9); FLT=(4,5,6)
def supported(t):
    # symbolic integers cannot be converted to float / big.Rat in the engine
    flat=[]
    for k in t:
        if k>=3000: flat+=[(k-3000)//50,(k-3000)%50]
        elif k>=100: flat+=[(k-100)//50,(k-100)%50]
        else: flat.append(k)
    if any(k in SYMNUM for k in flat) and any(k in FLT for k in flat): return False
    # symbolic ASCII text of 2+ bytes against the non-ASCII grid: > 5 min per case
    if any(k in (12,13,22,23) for k in flat) and any(k in (14,) for k in flat): return False
    return True

# ---------- (i) pairs
S=[0,1,2,3,4,5,6,7,8,9,11,12,14,17,21,22,24]
S2=S+[10,13,23]
pairs_q=[[a,b] for a in S for b in S if a<=b and supported((a,b))]
lp=[[L(1,11),L(1,11)],[L(8,5),L(8,6)],[L(0,1),L(0,1)],[L(0,1),L(1,1)],[L(21,7),L(21,7)],[V(1,11),V(1,11)],[V(8,5),V(3,5)],[L(1,11),V(1,11)],[L(1,1),1],[L(1,1),0],[V(1,1),21],[L(9,7),L(1,7)],[L(2,21),L(9,21)]]
pairs_t=[[a,b] for a in S2 for b in S2 if a<=b and supported((a,b))]
lp_t=lp+[[L(1,12),L(1,12)],[V(1,12),V(1,12)],[L(14,17),L(14,17)],[L(24,24),L(24,24)],[V(4,6),V(4,6)],[L(3,4),L(3,4)],[L(12,12),L(12,12)]]
XK=[31,32,33,34,35,40,41,42]
xp_q=[[31,8],[32,40],[33,41],[34,8],[40,8],[41,8],[42,8],[31,42],[35,35],[35,11],[32,6]]
xp_t=uniq(xp_q+[[a,b] for a in XK for b in XK if a<=b]+[[a,b] for a in XK for b in (8,6,3,4,5,0,7,11,21)])
xt_t=[[a,b,a] for a in XK+[8,6,3] for b in XK if a!=b]+[[b,a,b] for a in (8,6,3) for b in XK]
# ---------- refl
RK=[0,1,2,3,4,5,6,7,8,9,10,11,12,13,14,17,21,22,23,24,31,32,33,34,35,36,38,39,L(1,12),L(0,1),L(8,5),V(1,7),V(4,6)]
# ---------- triples
CON=[3,4,5,6,8]
num_t=[list(t) for t in itertools.product([1,2,9,3,8],repeat=3)]+[list(t) for t in itertools.product(CON,repeat=3)]
num_t=uniq(num_t)
conq=uniq([list(t) for t in itertools.product(CON,repeat=3) if t[0]<=t[2] and t[1] in (5,6)]+[[k,k,k] for k in CON]+[[3,4,3],[3,8,3],[8,3,8],[4,8,4],[3,4,8]])
symq=[[1,1,1],[2,2,2],[9,9,9],[1,9,1],[1,2,9],[2,9,1],[1,3,2],[9,8,1],[3,9,3],[1,8,1]]
num_q=conq+symq
txt_q=[[11,11,11],[21,21,21],[24,24,24],[14,14,14],[17,17,17],[7,7,7]]
txt_t=uniq(txt_q+[[7,17,7],[21,24,21]]+[list(t) for t in itertools.product([11,12],repeat=3)]+[list(t) for t in itertools.product([21,22,24],repeat=3) if supported(t)]+[list(t) for t in itertools.product([7,17],repeat=3)])
lst_q=[[L(1,1),L(9,1),L(1,1)]]
lst_t=lst_q+[[L(1,21)]*3,[L(1,7)]*3,[V(1,7)]*3,[L(1,7),V(1,7),L(1,7)],[L(9,7),L(1,7),L(2,7)],[L(1,11)]*3,[V(1,11)]*3,[L(21,7)]*3,[L(8,1),L(8,1),L(5,1)],[V(3,1),V(8,1),V(5,1)]]
mixed=[[1,11,21],[7,11,21],[0,1,0],[0,0,0],[24,14,24],[11,21,11],[8,17,8]]
tr_q=num_q+txt_q+lst_q+mixed
tr_t=num_t+txt_t+lst_t+mixed+xt_t
# ---------- hash
HK=[0,1,2,3,4,5,6,7,8,9,11,12,14,17,21,22,24]
kp=[[k,k] for k in HK]+[[1,9],[1,11],[11,21],[7,11],[0,21],[8,6],[3,4],[1,8],[2,3],[21,24],[5,6],[L(1,1),L(1,1)],[1,L(1,1)]]
Hq=[[1,2,3,4],[1,6,3,8],[9,5,3,8],[1,9,5,3],[1,1,8,3],[1,7,4,3]]
Ht=Hq+[[9,6,3,8],[9,3,8,5],[10,9,5,4],[9,10,6,5],[2,9,7,3],[9,1,3,5],[1,2,5,4],[1,2,8,0],[1,5,3,8],[1,2,7,4],[5,1,3,0],[2,1,6,3],[1,2,2,4],[3,1,3,5],[2,2,5,3],[1,2,1,8],[6,2,5,8],[1,2,5,6]]
hash_q=[p+h for p in kp for h in Hq if p!=[22,22] or h in ([1,6,3,8],[9,5,3,8])]  # 2-byte symbol keys: 71 paths per history
hash_t=[p+h for p in kp for h in Ht]
# ---------- types
names=['arithmetic-error','array','bag-flavor','bag-path','bignum','bit','bit-vector','byte','cell-error','channel','character','class-not-found','complex','condition','control-error','division-by-zero','double-float','end-of-file','error','file-error','file-stream','fixnum','flavor','float','hash-table','input-stream','integer','invalid-method-error','logger-flavor','long-float','no-applicable-method-error','number','octet','octets','output-stream','package','package-error','parse-error','print-not-readable','program-error','ratio','rational','reader-error','real','sequence','serious-condition','short-float','signed-byte','simple-condition','simple-error','simple-type-error','simple-warning','single-float','stream','stream-error','string','symbol','system','time','type-error','unbound-slot','unbound-variable','undefined-function','unsigned-byte','vanilla-flavor','vector','warning','list','t']
assert len(names)==69
TK=[0,1,2,3,4,5,6,7,8,9,10,11,12,14,17,21,22,24,30,31,32,33,34,35,36,37,38,39,40,41,42,L(1,12),L(0,1),V(1,7)]
valid=['list','string','vector','character','integer','fixnum','octet','byte','octets','bignum','float','short-float','single-float','double-float','long-float','rational','ratio','complex','symbol','hash-table','bit-vector','signed-byte','unsigned-byte','bit','t']
floatish=['float','short-float','single-float','double-float','long-float','ratio','complex','bit-vector','rational']
CK=[0,1,3,4,5,6,7,8,11,12,14,17,21,24,30,31,32,33,34,35,36,37,38,39,40,41,42,L(7,7),V(7,7),L(8,8),L(1,1),L(0,0)]
def co_ok(k,t):
    if k in (1,7,30,37,L(1,1)) and t in floatish+['signed-byte','unsigned-byte','bit']: return False
    return True
co_q=[[k,names.index(t)] for k in CK for t in valid if co_ok(k,t)]
co_t=[[k,i] for k in CK for i,t in enumerate(names) if co_ok(k,t)]

spec=[
 ob("pair","VerifC16Pair",pairs_q+lp+xp_q,pairs_t+lp_t+xp_t,reach=["compared","checked"],
    note="(i) For a pair of objects of kinds (kx,ky) [kind table at the top of zz_verif_c16.go], both argument orders: eq, eql, equal, equalp each return t or nil (no Go fault, no condition), are symmetric, and eq => eql => equal => equalp. Symbolic: fixnum payloads (full int64), bignums (unbounded symbolic integer via vrt.Big, and big.NewInt(symbolic int64)), characters, string/symbol bytes (strings 0..2 bytes quick, 0..3 thorough), the same inside 2-element lists/vectors. Concrete grids (vrt.Choice enumeration): ratios, single/double floats, bignums beyond int64, fixnums around 2^24/2^53, non-ASCII strings/characters, symbols differing in case. eq is the engine's interface-word model: only eq => eql/equal, eq symmetric and totality are asserted. Also pairs with long-float, complex, signed-byte, unsigned-byte, bit objects (concrete). Carves used by the entry (probed by the C16.kf-* obligations): C16-bit-number-compare, C16-equalp-nil-deref, C16-eql-char-type-assertion, C16-eql-nonnumber-condition; assertions are ordered so that each carve only hides the later, affected ones. Not covered: pairs of a symbolic integer with a float/ratio (engine cannot convert symbolic ints to float), symbolic 2+ byte text against the non-ASCII grid (> 5 min per case)."),
 ob("refl","VerifC16Refl",[[k] for k in RK],reach=["same-object","copy"],
    note="(i) Reflexivity: (P x x) is t for P in eq, eql, equal, equalp with the same object in both positions; and for a separately built object of identical Go type and content (Assume on an independent structural comparison) equal/equalp are t and eql is t for numbers, characters, strings, symbols. Kinds: all of the universe incl. long-float, complex, signed/unsigned-byte, bit, bit-vector, hash-table, empty list, lists and vectors. Octet is left out: the engine's eq intrinsic mis-models 8-bit payloads (reported)."),
 ob("trans","VerifC16Trans",tr_q,tr_t,reach=["compared"],
    note="(i) Transitivity of eql, equal, equalp over triples of kinds, wherever the three calls return a value (totality is C16.pair's). Carve C16-number-compare-rounds: triples in which an exact number wider than the mantissa meets a float (or a ratio wider than 53 bits meets a bignum). quick: concrete-grid number triples with a float in the middle (x<=z by kind), the diagonal and a few exact ones, 10 triples with symbolic fixnums/bignums, 1-byte strings/symbols, characters, one list triple; thorough: all 5^3 triples over {symbolic fixnum, symbolic bignum, fixnum-sized bignum, bignum grid, fixnum grid}, all 5^3 grid triples {bignum, ratio, single, double, fixnum}, 2-byte text, lists and vectors (rounding region applied element-wise), long-float/complex/signed-byte/unsigned-byte/bit objects. Not covered: symbolic text against the non-ASCII grid in triples (case budget)."),
 ob("goequal","VerifC16GoEqual",tr_q,tr_t,reach=["compared"],stub=False,
    note="(i, second obligation) The Go Equal methods called directly through slip.ObjectEqual (Fixnum/Bignum/Ratio/SingleFloat/DoubleFloat/String/Symbol/Character/List/Vector.Equal): reflexive, symmetric, transitive over the same triples as C16.trans. Carve C16-number-compare-rounds (Fixnum.Equal(SingleFloat) rounds the fixnum). No stubs."),
 ob("sxhash","VerifC16Sxhash",[[i] for i in range(36)],reach=["hashed","equal-pair"],
    note="(ii) ENUMERATION, not symbolic: 36 concrete representative objects (numbers of every representation incl. equal values in different representations, strings differing in ASCII and non-ASCII case, symbols, characters, lists, vectors); for every ordered pair (i by case, j by vrt.Choice): sxhash returns a non-negative fixnum, is stable, and (equal x y) implies the same code. sxhash goes through ojg sen.Bytes (native); engine/x_c16.go models ojg's alt.Simplifier arm by calling the object's interpreted Simplify() and passing the plain data to the native sen.Bytes; the native replay of witnesses compares the hash codes (vrt.Note) with the real ones. Carve C16-sxhash-not-equal-invariant: equal objects of different Go type/content."),
 ob("sxhash-case","VerifC16SxhashCase",[[p,k,o] for p in (0,1) for k in (0,1) for o in (0,1)],reach=["hashed","equal-pair","same-symbol"],
    note="(ii) ENUMERATION, not symbolic: for every letter a..z (vrt.Choice) the two 2-byte texts differing only in the case of that one letter (letter first / last, companion q / Q), as strings (equal is case-insensitive on strings: asserted, so the implication is never vacuous) and as symbols (Symbol.Equal/equalp are case-insensitive and sxhash documents case-insensitive codes for symbols): equal => equalp, equal (strings) or Equal (symbols) => same sxhash; plus 36 digit/punctuation bytes unchanged in two separately built texts. The codes go into vrt.Note and are compared with the native run at witness replay."),
 ob("hash","VerifC16Hash",hash_q,hash_t,reach=["history","maphash"],
    note="(iii) Hash table = finite map. A history of up to 4 operations (params 3..6: 0 none, 1/2 (setf (gethash A/B h) v), 9/10 (setf (gethash A/B h) nil) — a stored NIL is an entry: gethash => nil,t, remhash => t and removes it —, 3/4 gethash A/B, 5/6 remhash A/B, 7 clrhash, 8 hash-table-count) on a table from make-hash-table; each operation's own result (remhash's return value, gethash's two values) is compared with the model and AFTER EVERY OPERATION the whole observable state is compared: hash-table-count, both values of gethash for A and for B, and the set of key/value pairs maphash visits; against a reference association list under the table's documented test (eql): same type and value, strings by content, symbols by text, lists by identity. Two keys A, B of kinds (ka,kb) with independent symbolic payloads, so equal and different keys are both explored. Assumed away (slip's eql and the standard eql disagree): numbers of different representation with the same value, symbols differing only in case. Values stored are distinct fixnums or NIL. maphash is called with a lambda collecting (k v). Carves: C16-hash-pointer-keys (bignum/ratio keys with equal value), C16-hash-unhashable-key (list keys)."),
 ob("typeof","VerifC16TypeOf",[[k] for k in TK],reach=["typed"],
    note="(iv) (typep x (type-of x)), (typep x t), and typep of every member of x.Hierarchy() for an object of each kind (payload symbolic where the kind has one). Carve C16-typep-nil-supertypes (x = nil)."),
 ob("subtypep","VerifC16Subtypep",[[i] for i in range(70)],reach=[],
    note="(iv) ENUMERATION over the real class registry (slip.CurrentPackage.AllClasses(), sorted; 67 classes in the engine's package set): for class index i: (subtypep c c) is t, every (subtypep c cj) returns (values t-or-nil t), and c<=cj, cj<=ck imply c<=ck for all j,k. The harness asserts the registry has 60..70 classes so that the case list 0..69 covers it."),
 ob("typepsub","VerifC16TypepSub",[[k] for k in TK],reach=["sound"],
    note="(iv) subtypep agrees with typep: for an object x of each kind and all registered classes c1,c2: (typep x c1) and (subtypep c1 c2) imply (typep x c2); and every member of x.Hierarchy() that is a registered class is a subtypep-supertype of (type-of x) when that is a registered class."),
 ob("coerce","VerifC16Coerce",co_q,co_t,reach=["coerced"],
    note="(iv) (coerce x T): T by index from the sorted class registry plus list and t (quick: the 25 type symbols coerce accepts; thorough: all 69), x from the object pool: the call either signals a condition or returns an object that is typep T; never a Go fault. Symbolic payloads for fixnum/character/octet/string/symbol sources except towards float-like targets and bit-vector (symbolic int to float unsupported; bit loop forks 2^64 ways) where the concrete grids are used. Carves: C16-coerce-alias-types (byte, short-float), C16-typep-nil-supertypes (x = nil), C16-coerce-signed-to-unsigned."),
]
# known-finding witness obligations (small; the probe run explores inside the region)
def kf(id, entry, cases, carve, stub=True):
    return ob("kf-"+id, entry, cases, reach=[], carves=[carve], stub=stub,
      note="Witness cases for known finding "+carve+": the main run assumes the complement of the region (these cases are then empty or clean), the probe run explores inside it and must reproduce the defect natively. (Once the finding is marked fixed in known_findings.d the carve is a no-op and these are ordinary regression cases.)")
spec+=[
 kf("equalp-nil","VerifC16Pair",[[0,1],[L(0,1),L(1,1)]],"C16-equalp-nil-deref"),
 kf("eql-char","VerifC16Pair",[[7,1]],"C16-eql-char-type-assertion"),
 kf("eql-cond","VerifC16Pair",[[21,21],[1,21]],"C16-eql-nonnumber-condition"),
 kf("bit","VerifC16Pair",[[8,35]],"C16-bit-number-compare"),
 kf("bit-go","VerifC16GoEqual",[[6,35,6]],"C16-bit-number-compare",stub=False),
 kf("rounds","VerifC16Trans",[[8,5,8]],"C16-number-compare-rounds"),
 kf("rounds-go","VerifC16GoEqual",[[8,5,8]],"C16-number-compare-rounds",stub=False),
 kf("sxhash","VerifC16Sxhash",[[5],[16]],"C16-sxhash-not-equal-invariant"),
 kf("hash-ptr","VerifC16Hash",[[2,2,1,4,0,0],[4,4,1,2,8,0]],"C16-hash-pointer-keys"),
 kf("hash-list","VerifC16Hash",[[L(1,1),1,1,0,0,0]],"C16-hash-unhashable-key"),
 kf("typep-nil","VerifC16TypeOf",[[0]],"C16-typep-nil-supertypes"),
 kf("coerce-alias","VerifC16Coerce",[[8,names.index('byte')],[8,names.index('short-float')]],"C16-coerce-alias-types"),
 kf("coerce-sb","VerifC16Coerce",[[41,names.index('unsigned-byte')]],"C16-coerce-signed-to-unsigned"),
]
# sxhash first: check validates the first witnesses natively, and the sxhash notes carry the hash codes computed through the sen.Bytes model
spec.sort(key=lambda o: 0 if o["id"] in ("C16.sxhash","C16.sxhash-case") else 1)
out=sys.argv[1] if len(sys.argv)>1 else '/verif/harness/obligations.d/C16.json'
json.dump(spec,open(out,'w'),indent=1)
for s in spec: print(s['id'],len(s['cases']['quick']),len(s['cases']['thorough']))
