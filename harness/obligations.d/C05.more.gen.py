#!/usr/bin/env python3
"""Generates C05.more.json: gcd/lcm, expt, isqrt, rounding divisions of ratios, incf/decf of
bignum/ratio places, rational/rationalize/float (entries VerifC05Y... in zz_verif_c05_ext4.go)."""
import json, os
HERE = os.path.dirname(os.path.abspath(__file__))
COMMON = {"property": "C05", "pkg": "pkg/cl", "reach": ["called"], "opaque_int_text": True, "max_case_s": 200,
          "assumptions": ["text of integers printed into condition messages / stack traces is replaced by a placeholder (opaque_int_text): no C05 assertion looks at text"]}
ENUM = " This part is bounded enumeration executed by the engine (operands concrete from the case parameters / a concrete vrt.Choice); the oracle is exact math/big arithmetic written out in the harness."
obs = []


def ob(id, entry, quick, thorough, carves, note, **kw):
    o = dict(COMMON)
    o.update({"id": id, "entry": entry, "cases": {"quick": [list(c) for c in quick], "thorough": [list(c) for c in thorough]},
              "carves": carves, "note": note})
    o.update(kw)
    obs.append(o)


# ---- gcd / lcm ----
NI = 24
g_th = [(fn, 0, 0) for fn in (0, 1)] + [(fn, n, i) for fn in (0, 1) for n in (1, 2, 3) for i in range(NI)]
QI = (0, 2, 4, 6, 9, 11, 13, 14, 17, 21, 22)
g_q = [(fn, 0, 0) for fn in (0, 1)] + [(fn, 1, i) for fn in (0, 1) for i in range(NI)] + \
      [(fn, 2, i) for fn in (0, 1) for i in QI] + [(fn, 3, i) for fn in (0, 1) for i in (4, 6, 11, 13)]
ob("C05.y.gcdlcm", "VerifC05YGcd", g_q, g_th,
   ["C05-y-gcd-lcm-bignum-operand", "C05-y-gcd-lcm-most-negative-fixnum", "C05-y-lcm-fixnum-overflow"],
   "gcd / lcm with 0, 1, 2 or 3 integer arguments from a grid of 24 values (0, +-1, 2, -6, 12, 30030, -2^31, 2^32, 2^62, 2^63-1, -2^63, 2^63, 2^64, 2^64+-1, -2^64, 10^20, 30030*2^64, 3*2^100, the prime 2^61-1 and 6 times it, 3037000499/3037000500 around sqrt(2^63)); first argument from the case, the others from a concrete choice (all 24 for two arguments, 7 for three): result exact (oracle: math/big GCD of the magnitudes, lcm = |a|/gcd*|b|, 0 with a zero operand, (gcd) = 0, (lcm) = 1), non-negative, canonical, operands unchanged." + ENUM)
s_all = [(fn, m) for fn in (0, 1) for m in range(6) if (fn, m) != (1, 2)]
ob("C05.y.gcdlcm.sym", "VerifC05YGcdSym", s_all, s_all, ["C05-y-gcd-lcm-most-negative-fixnum"],
   "gcd / lcm identities for a fully symbolic fixnum x (whole int64 range; (lcm x x) with |x| < 2^16: symbolic product and quotient): (f x) = |x|, (gcd x 0) = (gcd 0 x) = |x|, (lcm x 0) = (lcm 0 x) = 0, (gcd x x) = |x| ((lcm x x) is left to the grid: symbolic 64-bit product and quotient time out in z3), (gcd x +-1) = 1, (lcm x +-1) = |x|; result non-negative.",
   int_mode=True)

# ---- expt ----
NB = 16
ob("C05.y.expt", "VerifC05YExpt", [(b,) for b in range(NB)], [(b,) for b in range(NB)],
   ["C05-y-expt-bignum-or-ratio-base-float", "C05-y-expt-negative-exponent-float", "C05-y-expt-fixnum-negative-exponent-float", "C05-y-expt-through-float"],
   "(expt base e): base from {0, +-1, +-2, +-3, +-10, 2^31, 2^32+1, +-2^64, 1/2, -2/3, 3/2} (case), e from {0 1 2 3 10 18 39 62 63 64 100 -1 -2 -63} (concrete choice): exact integer, exact ratio for negative exponents, (expt 0 0) = 1, (expt 0 negative) a Lisp condition, canonical form, base unchanged; oracle: repeated math/big multiplication of numerator and denominator." + ENUM)

# ---- isqrt ----
NK = 11
i_th = [(k, off, 0) for k in range(NK) for off in (-1, 0, 1)] + [(k, off, 1) for k in (0, 1, 5, 9, 10) for off in (-1, 0, 1)]
i_q = [c for c in i_th if c[2] == 0 or c[1] == 0]
ob("C05.y.isqrt", "VerifC05YIsqrt", i_q, i_th,
   ["C05-y-isqrt-fixnum-through-float", "C05-y-isqrt-bignum-in-place", "C05-y-isqrt-negative-bignum-go-panic"],
   "(isqrt n) for n = k^2 + {-1, 0, 1}, k from {1, 2, 2^26, 94906265, 94906266, 2^31, 3037000499, 2^32, 2^53, 2^63, 10^20} (so n covers 0 1 2 3 and both sides of 2^53, 2^63, 2^64): the result r is a canonical non-negative integer with r*r <= n < (r+1)^2 (checked by math/big multiplication), the operand is unchanged; -n is a Lisp condition, never a Go fault." + ENUM)

# ---- rounding divisions with ratio operands ----
NR = 19
INTS = range(0, 6)
RATS = range(6, NR)
rd_th = []
SLOW = (16, 17, 18)  # 2^64/3, -(2^64+1)/2, 22/7 under a symbolic dividend: the divisor enumeration of the Rat model takes minutes
for fn in range(6):
    for yi in range(NR):
        if yi in SLOW:
            continue
        for xd in (2, 3):
            rd_th.append((fn, 2, xd, 0, yi))          # symbolic numerator / xd
        if yi in RATS:
            rd_th.append((fn, 0, 1, 0, yi))           # symbolic fixnum by ratio
            rd_th.append((fn, 1, 1, 0, yi))           # symbolic bignum by ratio (known: goes float)
    for xn in range(NR):
        for yi in range(NR):
            if xn in RATS or yi in RATS:
                rd_th.append((fn, 4, 1, xn, yi))
rd_q = [c for c in rd_th if (c[1] == 2 and c[2] == 2 and c[4] in (0, 1, 4, 8, 9, 5)) or (c[1] == 2 and c[2] == 3 and c[4] == 3) or c == (0, 2, 2, 0, 12)
        or (c[1] == 0 and c[4] in (7, 10)) or (c[1] == 1 and c[4] == 6 and c[0] == 0)
        or (c[1] == 4 and c[3] in (8, 11, 13, 16, 17, 3) and c[4] in (0, 2, 6, 9, 12, 17))
        or c in ((0, 4, 1, 5, 6), (1, 4, 1, 8, 5), (0, 4, 1, 5, 13))]
ob("C05.y.ratdiv", "VerifC05YRatDiv", rd_q, rd_th,
   ["C05-bignum-with-ratio-goes-float", "C05-y-mod-rem-ratio-goes-float", "C05-y-ratio-division-quotient-bignum", "C05-y-ratio-division-remainder-noncanonical"],
   "floor ceiling truncate round mod rem with at least one ratio operand: the quotient is the mathematically defined rounding of x/y (round: nearest, ties to even), the remainder is x - q*y exactly, both canonical, operands unchanged, divisor zero is a Lisp condition. The dividend is a ratio with a SYMBOLIC numerator of unbounded magnitude over the concrete denominator 2 or 3 (lowest terms), or a fully symbolic fixnum / bignum, or a concrete value of the grid; the divisor is concrete from the grid {0, +-1, 2, -3, 2^64, +-1/2, +-3/2, +-5/2, +-7/3, +-1/3, 2^64/3, -(2^64+1)/2, 22/7} (the big.Rat model of the engine divides a symbolic numerator by concrete values only); grid x grid pairs are bounded enumeration executed by the engine. Oracle: reference rounding division of the integers xn*yd and xd*yn (zzC05RefDiv), remainder (xn*yd - q*xd*yn)/(xd*yd) compared by cross multiplication.",
   int_mode=True)

# ---- incf / decf ----
in_th = [(fn, pk, pd, dk, dd, 0) for fn in (0, 1) for (pk, pd) in ((0, 1), (1, 1), (2, 2), (2, 6)) for (dk, dd) in ((0, 1), (1, 1), (2, 2), (2, 3))
         if pk != 0 or dk != 0]
in_th += [(fn, pk, pd, dk, dd, 1) for fn in (0, 1) for (pk, pd) in ((1, 1), (2, 2)) for (dk, dd) in ((0, 1), (1, 1), (2, 3))]
in_th += [(fn, pk, pd, 0, 1, 2) for fn in (0, 1) for (pk, pd) in ((1, 1), (2, 2))]
in_q = [c for c in in_th if c[5] != 1 and c[2] != 6 and not (c[1] == 0 and c[3] == 1)] + [c for c in in_th if c[5] == 1 and c[0] == 0 and c[1] == 1 and c[3] == 1]
ob("C05.y.incf", "VerifC05YIncf", in_q, in_th, ["C05-bignum-with-ratio-goes-float", "C05-noncanonical-bignum-result", "C05-y-decf-most-negative-fixnum-delta"],
   "(incf place delta) / (decf place delta) where the place (a variable, or (car l)) holds a symbolic bignum of unbounded magnitude or a ratio with a symbolic unbounded numerator over the concrete denominator 2 or 6, and the delta is a symbolic fixnum, a symbolic bignum or a ratio with symbolic numerator over 2 or 3 (also no delta argument): the value returned and the value found in the place afterwards are the exact sum / difference in canonical form, the object the place held before (kept by the harness) and the delta object are unchanged. Oracle: fractions as integer pairs compared by cross multiplication.",
   int_mode=True)

# ---- conversions ----
NF, NE = 15, 16
cv_th = [(fn, i) for fn in range(4) for i in range(NF)] + [(fn, i) for fn in (4, 5, 6) for i in range(NE)] + [(7, i) for i in (0, 1, 2, 9, 10, 14, 15)]
cv_q = [c for c in cv_th if (c[0] < 2) or (c[0] in (2, 3) and c[1] in (0, 1, 5, 8)) or (c[0] == 4) or (c[0] in (5, 6) and c[1] in (4, 7, 9, 13)) or (c[0] == 7 and c[1] in (9, 14))]
ob("C05.y.conv", "VerifC05YConv", cv_q, cv_th, ["C05-y-rational-of-float-noncanonical", "C05-y-rationalize-not-within-float-accuracy", "C05-y-rationalize-beyond-decimal-loop-scaled"],
   "rational / rationalize of a concrete double-float from {0.5 0.1 1e20 2^53+2 -0.75 2.0 0.0 1e-5 123456789.125 -2^63 1/3 3.5 -1e15 5e-324 1e300} and of the nearest single-float: rational gives the exact value m*2^e of the float (oracle: math.Frexp), both give a canonical rational that converts back (float r / float r 1.0s0) to the same float; (float q), (coerce q 'float), (coerce q 'double-float), (float q 1.0s0) of 16 exactly representable integers and ratios (2^53, 2^53+2, -2^63, 2^64, 10^20, 2^100, 1/2, -3/4, (2^52+1)/2^60, 5/2^70, -(2^40+1)/8, ...) give the float of exactly that value, operand unchanged. Floats are concrete in the engine." + ENUM)

json.dump(obs, open(os.path.join(HERE, "C05.more.json"), "w"), indent=1)
for o in obs:
    print(o["id"], len(o["cases"]["quick"]), len(o["cases"]["thorough"]))
