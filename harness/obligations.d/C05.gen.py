# Regenerates the C05.x.* obligations (extension) inside C05.json, leaving the hand-written base
# obligations alone:  python3 C05.gen.py
import json, os
HERE = os.path.dirname(os.path.abspath(__file__))
PATH = os.path.join(HERE, "C05.json")
base = [o for o in json.load(open(PATH)) if not o["id"].startswith("C05.x.")]
O = []
ENUM = " This part is bounded enumeration executed by the engine (operands concrete from the case parameters / a concrete vrt.Choice), the oracle is exact math/big arithmetic written out in the harness."
def ob(id, entry, quick, thorough, note, carves=(), reach=("called",), **kw):
    d = {"id": "C05.x." + id, "property": "C05", "pkg": "pkg/cl", "entry": entry,
         "cases": {"quick": [list(c) for c in quick], "thorough": [list(c) for c in thorough]},
         "reach": list(reach), "carves": list(carves), "opaque_int_text": True, "max_case_s": 200,
         "assumptions": ["text of integers printed into condition messages / stack traces is replaced by a placeholder (opaque_int_text): no C05 assertion looks at text"],
         "note": note}
    d.update(kw); O.append(d)

GRID = 35  # zzC05XGridN

# ---- bit operations ----
NBIN = 26
EQV = (3, 19)  # logeqv, boole-eqv: bignum path through big.Int.Bytes -> grid
fix2 = [(op, 0, 0) for op in range(NBIN)]
ob("bit.fix2", "VerifC05XBit2", fix2, fix2,
   "the ten two-argument log* functions and the sixteen boole operations on two fixnums, both fully symbolic 64-bit (bit-vector encoding); oracle: the operation's truth table applied to every bit position; result must be a fixnum, operands unchanged")
big2 = [(op, k0, k1) for op in range(NBIN) if op not in EQV for (k0, k1) in ((0, 1), (1, 0), (1, 1))]
big2q = [c for c in big2 if c[0] in (0, 1, 2, 4, 5, 8, 22, 25) or (c[1], c[2]) == (1, 1)]
ob("bit.big2", "VerifC05XBit2", big2q, big2,
   "the same operations with one or two bignum operands: a bignum is a symbolic 192-bit two's complement integer built from three symbolic 64-bit limbs (any sign; includes values that fit a fixnum), a fixnum is fully symbolic; math/big And/Or/Xor/AndNot/Not are modelled limb-wise on a 256-bit two's complement image (engine/x_c05.go), the oracle applies the truth table to the operand limbs; exact value, operands unchanged, canonical form (fixnum iff the value fits). logeqv / boole-eqv with a bignum go through big.Int.Bytes (no symbolic model): see C05.x.bit.grid",
   carves=["C05-bitop-noncanonical-bignum"])
nary = []
for op in range(4):
    for n in range(0, 5):
        for mask in range(1 << n):
            if op == 3 and mask != 0:
                continue
            nary.append((op, n, mask))
naryq = [c for c in nary if c[1] <= 2 or c[2] in (0, 2, 4, 6, 8, 1 << (c[1] - 1))]
ob("bit.nary", "VerifC05XBitN", naryq, nary,
   "logand logior logxor logeqv with 0..4 arguments; every argument a fully symbolic fixnum or (mask bit set) a symbolic 192-bit bignum, in every order (in particular negative fixnums followed by a bignum: the switch from the machine-word accumulator to math/big); oracle: fold of the truth table over the operand limbs starting from the operation's identity; logeqv only with fixnum arguments here (bignum path: grid)",
   carves=["C05-bitop-noncanonical-bignum"])
ob("bit.fix1", "VerifC05XBit1", [(f,) for f in range(5)], [(f,) for f in range(5)],
   "lognot, logcount, integer-length of a fully symbolic fixnum; logbitp of a symbolic index 0..200 and a symbolic fixnum; logtest of two symbolic fixnums; oracle written bit by bit",
   carves=["C05-logbitp-fixnum-index-beyond-63"])
gridc = [(fn, i) for fn in range(7) for i in range(GRID)]
gridq = [(fn, i) for fn in range(7) for i in (0, 2, 12, 13, 14, 15, 16, 18, 20, 21, 25, 27, 30)]
ob("bit.grid", "VerifC05XBitGrid", gridq, gridc,
   "logcount, integer-length, lognot, logbitp (index from 0 1 7 8 31 63 64 65 70 127 128 200), logtest, logeqv, boole-eqv on the boundary grid of the property extended by -2^63-1, +-(10^20+3), +-(2^100+12345), 2^128-1, -2^128 and a few small values (35 values; binary functions: first operand from the case, second from a concrete choice over the whole grid, pairs of two fixnums left to the symbolic obligations); oracle: bit i of x is floor(x/2^i) mod 2 computed with Quo/Rem on -x-1 for negatives." + ENUM,
   carves=["C05-bitops-negative-bignum-magnitude", "C05-operand-altered-in-place", "C05-logeqv-bignum", "C05-logbitp-fixnum-index-beyond-63"])

txt = json.dumps(base, indent=1)
assert txt.endswith("\n]")
txt = txt[:-2] + "".join(",\n " + json.dumps(o) for o in O) + "\n]\n"
open(PATH, "w").write(txt)
json.load(open(PATH))
print(len(base), "base +", len(O), "extension obligations")
