# Regenerates the C05.x.* obligations (extension) inside C05.json, leaving the hand-written base
# obligations alone:  python3 C05.gen.py
import json, os
HERE = os.path.dirname(os.path.abspath(__file__))
PATH = os.path.join(HERE, "C05.json")
base = [o for o in json.load(open(PATH)) if not o["id"].startswith("C05.x.")]
O = []
ENUM = " This part is bounded enumeration executed by the engine (operands concrete from the case parameters / a concrete vrt.Choice), the oracle is exact math/big arithmetic written out in the harness."
def ob(id, entry, quick, thorough, note, carves=(), reach=("called",), **kw):
    d = {"id": "C05.x." + id, "property": "C05", "pkg": "pkg/cl", "entry": entry,
         "cases": {"quick": [list(c) for c in quick], "thorough": [list(c) for c in thorough]},
         "reach": list(reach), "carves": list(carves), "opaque_int_text": True, "max_case_s": 200,
         "assumptions": ["text of integers printed into condition messages / stack traces is replaced by a placeholder (opaque_int_text): no C05 assertion looks at text"],
         "note": note}
    d.update(kw); O.append(d)

GRID = 32  # zzC05XGridN

# ---- bit operations ----
NBIN = 26
EQV = (3, 19)  # logeqv, boole-eqv: bignum path through big.Int.Bytes -> grid
fix2 = [(op, 0, 0) for op in range(NBIN)]
ob("bit.fix2", "VerifC05XBit2", fix2, fix2,
   "the ten two-argument log* functions and the sixteen boole operations on two fixnums, both fully symbolic 64-bit (bit-vector encoding); oracle: the operation's truth table applied to every bit position; result must be a fixnum, operands unchanged")
big2 = [(op, k0, k1) for op in range(NBIN) if op not in EQV for (k0, k1) in ((0, 1), (1, 0), (1, 1))]
big2q = [c for c in big2 if c[0] in (0, 1, 2, 4, 5, 8, 22, 25) or (c[1], c[2]) == (1, 1)]
ob("bit.big2", "VerifC05XBit2", big2q, big2,
   "the same operations with one or two bignum operands: a bignum is a symbolic 192-bit two's complement integer built from three symbolic 64-bit limbs (any sign; includes values that fit a fixnum), a fixnum is fully symbolic; math/big And/Or/Xor/AndNot/Not are modelled limb-wise on a 256-bit two's complement image (engine/x_c05.go), the oracle applies the truth table to the operand limbs; exact value, operands unchanged, canonical form (fixnum iff the value fits). logeqv / boole-eqv with a bignum go through big.Int.Bytes (no symbolic model): see C05.x.bit.grid",
   carves=["C05-bitop-noncanonical-bignum"])
nary = []
for op in range(4):
    for n in range(0, 5):
        for mask in range(1 << n):
            if op == 3 and mask != 0:
                continue
            nary.append((op, n, mask))
naryq = [c for c in nary if c[1] <= 2 or c[2] in (0, 2, 4, 6, 8, 1 << (c[1] - 1))]
ob("bit.nary", "VerifC05XBitN", naryq, nary,
   "logand logior logxor logeqv with 0..4 arguments; every argument a fully symbolic fixnum or (mask bit set) a symbolic 192-bit bignum, in every order (in particular negative fixnums followed by a bignum: the switch from the machine-word accumulator to math/big); oracle: fold of the truth table over the operand limbs starting from the operation's identity; logeqv only with fixnum arguments here (bignum path: grid)",
   carves=["C05-bitop-noncanonical-bignum"])
lc = [(bg, pos) for bg in range(4) for pos in (0, 13, 29, 45, 58)]
ob("bit.logcount", "VerifC05XLogcount", [(1, 29), (2, 58), (3, 58)], lc,
   "logcount of a fixnum: four symbolic bits in a window at bit 0/13/29/45/58 over a background pattern (0, -1, 0x5a5a.., 2^63 pattern), i.e. both signs; slip's loop branches on every bit, so the engine enumerates the 16 window values (bounded enumeration executed by the engine); oracle: branch-free population count of x or its complement")
ob("bit.fix1", "VerifC05XBit1", [(f,) for f in (0, 2, 3, 4)], [(f,) for f in (0, 2, 3, 4)],
   "lognot, integer-length of a fully symbolic fixnum; logbitp of a symbolic index 0..200 and a symbolic fixnum; logtest of two symbolic fixnums; oracle written bit by bit",
   carves=["C05-logbitp-fixnum-index-beyond-63"])
gridc = [(fn, i) for fn in range(7) for i in range(GRID)]
gridq = [(fn, i) for fn in range(7) for i in (0, 2, 12, 13, 14, 15, 16, 18, 20, 21, 25, 27, 30)]
ob("bit.grid", "VerifC05XBitGrid", gridq, gridc,
   "logcount, integer-length, lognot, logbitp (index from 0 1 7 8 31 63 64 65 70 127 128 200), logtest, logeqv, boole-eqv on the boundary grid of the property extended by -2^63-1, +-(10^20+3), +-(2^100+12345), 2^128-1, -2^128 and a few small values (32 values; binary functions: first operand from the case, second from a concrete choice over the whole grid, pairs of two fixnums left to the symbolic obligations); oracle: bit i of x is floor(x/2^i) mod 2 computed with Quo/Rem on -x-1 for negatives." + ENUM,
   carves=["C05-bitops-negative-bignum-magnitude", "C05-operand-altered-in-place", "C05-logeqv-bignum", "C05-logbitp-fixnum-index-beyond-63"])

# ---- ratios ----
# operand kinds: 0 fixnum(sym) 1 bignum(sym) 2 ratio sym-numerator/den 3 concrete integer 4 concrete ratio n/den
# den code: >=1000 -> small value den-1000, else grid index (negative: negated grid value)
S = lambda v: 1000 + v
G63, G64, G64P1, G32, G62 = 12, 14, 16, 7, 9   # grid indices of 2^63 2^64 2^64+1 2^32 2^62
RATNOTE = " Ratio operands have a symbolic numerator of unbounded magnitude over a concrete denominator taken from the case parameters (small values and the boundary grid), in lowest terms (big.Rat model with symbolic numerator: engine/x_c05.go forks over the divisors of the denominator); integer operands are fully symbolic fixnums / unbounded bignums; for / the divisor is concrete from the parameters (1 -1 2 6 -3 0 and small ratios; divisors from the big end of the grid make the divisor enumeration of the model too slow), the dividend symbolic; * bounds both symbolic values by 2^bits (last parameter) because the product of two symbolic values is non-linear. Oracle: fractions as integer pairs compared by cross multiplication; lowest terms = no prime factor of the denominator divides the numerator."
ra = []
for op in (0, 1):
    for (k0, d0, k1, d1) in ((2, S(2), 2, S(3)), (2, S(6), 2, S(4)), (2, S(3), 0, S(0)), (0, S(0), 2, S(12)), (2, S(2), 3, G64), (3, -G64P1, 2, S(6)),
                             (2, G64P1, 2, G64P1), (2, G63, 0, S(0)), (2, G64, 0, S(0)), (2, G64P1, 3, G64), (2, S(3), 2, G64P1), (0, S(0), 2, G32)):
        ra.append((op, k0, d0, k1, d1, 0, 0))
for (k0, d0, k1, d1, bits) in ((2, S(2), 2, S(3), 8), (2, S(4), 0, S(0), 8), (3, G64, 2, S(6), 8), (2, G64P1, 2, S(3), 6), (0, S(0), 2, G63, 8)):
    ra.append((2, k0, d0, k1, d1, 0, bits))
# division: symbolic dividend, concrete divisor
for (k0, d0) in ((0, S(0)), (1, S(0)), (2, S(3)), (2, G64)):
    for (k1, d1, n1) in ((3, S(1), 0), (3, -1, 0), (3, S(2), 0), (3, S(6), 0), (3, -3, 0), (3, S(0), 0),
                         (4, S(3), 2), (4, S(4), -6), (4, S(3), 0)):
        ra.append((3, k0, d0, k1, d1, n1, 0))
ra = [c for c in ra if all(d >= 1000 for d in (c[2], c[4]))]  # big-grid denominators: the model's divisor enumeration over 2^64 does not finish
raq = [c for i, c in enumerate(ra) if (c[0] < 3 and i % 3 == 0) or (c[0] == 3 and (c[1], c[4]) in ((0, -1), (0, S(6)), (1, S(2)), (2, S(3)), (2, S(2))) )]
ob("rat.arith", "VerifC05XRatArith", raq, ra,
   "+ - * / with at least one ratio operand, and integer/integer division (which yields a ratio): exact value, lowest terms with positive denominator, integer-valued results are integers, integers canonical, operands unchanged." + RATNOTE,
   carves=["C05-divide-alters-ratio-operand", "C05-fixnum-min-wraps", "C05-ratio-result-integer-valued", "C05-noncanonical-bignum-quotient", "C05-bignum-with-ratio-goes-float"], int_mode=True)
rc = []
for (k0, d0, k1, d1, n1) in ((2, S(2), 2, S(3), 0), (2, S(6), 2, S(6), 0), (2, S(3), 0, S(0), 0), (0, S(0), 2, S(4), 0), (2, S(2), 3, G64, 0), (3, -G64P1, 2, S(5), 0),
                             (2, G64, 2, G64, 0), (2, G63, 0, S(0), 0), (0, S(0), 2, G64P1, 0), (2, G64P1, 3, G64, 0), (2, G32, 2, G64, 0),
                             (2, S(3), 4, S(3), 1), (0, S(0), 4, G64, -3), (3, 20, 4, S(2), 3)):
    rc.append((k0, d0, k1, d1, n1))
rc = [c for c in rc if c[1] not in (G63, G64, G32) and c[3] not in (G63, G32) and not (c[2] == 2 and c[3] == G64)]
ob("rat.compare", "VerifC05XRatCompare", rc[0:5] + rc[-2:], rc,
   "= /= < <= > >= and max/min on ratio x ratio, ratio x fixnum, ratio x bignum pairs in both orders: exactly one of < = > holds, every comparison agrees with the exact values, max/min return the right value, operands unchanged. A bignum next to a ratio is concrete (grid): slip converts that pair to long floats, which the engine only runs on concrete values." + RATNOTE, carves=["C05-bignum-with-ratio-goes-float"], int_mode=True)
ru = []
for fn in range(3, 9):
    for (k, d) in ((2, S(2)), (2, S(6)), (2, G64), (2, G63), (2, G64P1)):
        ru.append((fn, k, d, 0))
for fn in (7, 8):
    ru += [(fn, 0, S(0), 0), (fn, 1, S(0), 0)]
for (k, d, n) in ((3, S(1), 0), (3, -1, 0), (3, S(2), 0), (3, -12, 0), (3, G64, 0), (3, -G64, 0), (3, S(0), 0), (4, S(3), 2), (4, S(3), -2), (4, G64, 3), (4, S(6), -9)):
    ru.append((9, k, d, n))
ru = [c for c in ru if not (c[1] == 2 and c[2] in (G63, G64))]
ruq = [c for i, c in enumerate(ru) if (c[0] < 9 and c[2] in (S(6), G64P1)) or (c[0] in (7, 8) and c[1] < 2) or (c[0] == 9 and i % 2 == 0)]
ob("rat.unary", "VerifC05XRatUnary", ruq, ru,
   "abs - 1+ 1- numerator denominator (zerop plusp minusp of a ratio go through big.Rat.Float64, which the engine runs on concrete values only: not covered) on a ratio with symbolic numerator (denominators 2, 6, 2^63, 2^64, 2^64+1), numerator/denominator of symbolic integers, and the reciprocal (/ x) of concrete integers and ratios from the parameters (a symbolic numerator cannot become a denominator in the model: that part is bounded enumeration executed by the engine); exact, canonical, operand unchanged." + RATNOTE,
   carves=["C05-divide-alters-ratio-operand", "C05-oneplus-alters-ratio-operand", "C05-noncanonical-bignum-numerator", "C05-ratio-result-integer-valued"], int_mode=True)

# ---- rational vs float comparisons ----
NF = 20
SINGLE = (0, 1, 2, 3, 6, 9, 12, 14, 15, 16, 17, 18, 19)
fc = []
for fk in range(3):
    for fi in range(NF):
        if fk == 0 and fi not in SINGLE:
            continue
        for swap in (0, 1):
            fc.append((fk, fi, 0, 0, swap))
            for off in (-1, 0, 1):
                fc.append((fk, fi, 1, off, swap))
            for off in (-1, 0):
                fc.append((fk, fi, 2, off, swap))
fcq = [c for c in fc if c[2] == 0 and c[4] == 0 and c[1] in (0, 3, 5, 6, 9, 12, 14)] + [c for c in fc if c[2] == 1 and c[0] == 1 and c[1] in (6, 9, 12) and c[4] == 1] + [(1, 3, 2, 0, 0), (2, 12, 2, 0, 0), (2, 12, 1, 1, 1), (0, 17, 1, 0, 0)]
def ob_off(*a, **k): pass
# disabled: the engine evaluates slip's float/integer equality differently from the native run
# (every "=" of a float with the equal integer is nil in the engine, t natively) -> see the report
ob_off("floatcmp", "VerifC05XFloatCmp", fcq, fc,
   "= /= < <= > >= between a rational and a float, both argument orders: exactly one of < = > holds, = agrees with mathematical equality, /= is its negation, every comparison agrees with the exact values (oracle: the float's exact value m*2^e as an integer fraction, compared by cross multiplication). The float is concrete from a grid of 20 values adjacent to 2^24, 2^53, 2^63, -2^63, 2^64 plus 0, 0.5, -1.5 (floats are concrete in the engine) in single, double and long-float (128 bit) format: bounded enumeration executed by the engine on that side. The rational is a symbolic fixnum within +-2 of the float's value (clamped to the fixnum range; the int64 -> float conversion of slip runs on the symbolic value), or the concrete integer trunc(f)+{-1,0,1} (bignum beyond 2^63), or the concrete ratio trunc(f)+{-1,0}+1/2.",
   carves=["C05-compare-rational-with-float-rounds"])

txt = json.dumps(base, indent=1)
assert txt.endswith("\n]")
txt = txt[:-2] + "".join(",\n " + json.dumps(o) for o in O) + "\n]\n"
open(PATH, "w").write(txt)
json.load(open(PATH))
print(len(base), "base +", len(O), "extension obligations")
