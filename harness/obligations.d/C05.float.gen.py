#!/usr/bin/env python3
"""Generates C05.float.json: comparisons between rationals and floats (entry VerifC05XFloatCmp in zz_verif_c05_ext3.go)."""
import json, os
HERE = os.path.dirname(os.path.abspath(__file__))
base = [o for o in json.load(open(os.path.join(HERE, "C05.json"))) if o["id"] == "C05.compare"][0]
NF = 20
SINGLE = (0, 1, 2, 3, 6, 9, 12, 14, 15, 16, 17, 18, 19)
fc = []
for fk in range(3):
    for fi in range(NF):
        if fk == 0 and fi not in SINGLE:
            continue
        for swap in (0, 1):
            fc.append((fk, fi, 0, 0, swap))
            for off in (-1, 0, 1):
                fc.append((fk, fi, 1, off, swap))
            for off in (-1, 0):
                fc.append((fk, fi, 2, off, swap))
far = [(fk, fi, 3, off, swap) for fk in range(3) for fi in range(NF) if not (fk == 0 and fi not in SINGLE) for off in range(11) for swap in (0, 1)]
farq = [c for c in far if c[1] in (6, 9, 12, 3) and c[3] in (0, 1, 9) and c[0] != 2 and (c[4] == 0 or c[3] == 0)]
longonly = [(2, fi, ik, off, swap) for fi in (20, 21, 22, 23) for (ik, offs) in ((1, (-1, 0, 1)), (2, (-1, 0)), (0, (0,))) for off in offs for swap in (0, 1)]
fc = fc + far + longonly
fcq = farq + [c for c in longonly if c[1] in (20, 21) and c[4] == 0] + [c for c in fc if c[2] == 0 and c[4] == 0 and c[1] in (0, 3, 5, 6, 9, 12, 14)] + [c for c in fc if c[2] == 1 and c[0] == 1 and c[1] in (6, 9, 12) and c[4] == 1] + [(1, 3, 2, 0, 0), (2, 12, 2, 0, 0), (2, 12, 1, 1, 1), (0, 17, 1, 0, 0)]
o = {k: v for k, v in base.items() if k not in ("cases", "note", "id", "entry", "carves", "int_mode")}
o.update({"id": "C05.x.floatcmp", "entry": "VerifC05XFloatCmp", "cases": {"quick": [list(c) for c in fcq], "thorough": [list(c) for c in fc]},
          "reach": ["called"], "carves": ["C05-compare-rational-with-float-rounds"],
          "note": "= /= < <= > >= between a rational and a float, both argument orders: exactly one of < = > holds, = agrees with mathematical equality, /= is its negation, every comparison agrees with the exact values (oracle: the float's exact value m*2^e as an integer fraction, compared by cross multiplication). The float is concrete from a grid of 20 values adjacent to 2^24, 2^53, 2^63, -2^63, 2^64 plus 0, 0.5, -1.5 (floats are concrete in the engine) in single, double and long-float (128 bit) format: bounded enumeration executed by the engine on that side. The rational is a fixnum within +-2 of the float's value (window enumerated by engine forks, clamped to the fixnum range), or the concrete integer trunc(f)+{-1,0,1} (bignum beyond 2^63), or the concrete ratio trunc(f)+{-1,0}+1/2, or one of 11 boundary fixnums (most-negative/most-positive-fixnum, 0, +-1, +-2^62, +-2^31, +-(2^53+1)) far away from the float. Four long-float-only grid values need more than 53 significant bits (2^64+1, 2^53+1, -2^64+1, 3*2^70+1)."})
json.dump([o], open(os.path.join(HERE, "C05.float.json"), "w"), indent=1)
print(len(fcq), len(fc))
