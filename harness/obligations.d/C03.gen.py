# Regenerates the extension obligations (ids C03.x.*) inside C03.json: python3 C03.gen.py
# The four original obligations (C03.char/.symbol/.fixnum/.tree) are kept as they are in the file,
# except for the quick case lists trimmed below (QUICK_MOVE: cases moved from quick to thorough).
import json, os
HERE = os.path.dirname(os.path.abspath(__file__))
PATH = os.path.join(HERE, "C03.json")
old = [o for o in json.load(open(PATH)) if not o["id"].startswith("C03.x.")]
# Quick cases of the original obligations that only run in the thorough tier now (they were the longest of the quick tier:
# 3- and 4-byte characters 570 s / 310 s, the second base-10 fixnum case 310 s, two of the four *print-case* settings for
# 2-byte symbol names 115 s / 150 s, measured on the loaded machine); nothing is dropped: thorough runs the full old lists.
QUICK_MOVE = {"C03.char": [[3], [4]], "C03.fixnum": [[10, 1, 0]], "C03.symbol": [[2, 1, 1], [2, 3, 1]]}
for o in old:
    mv = QUICK_MOVE.get(o["id"])
    if mv:
        c = o["cases"]
        if "thorough" not in c:
            c["thorough"] = list(c["quick"])
        for m in mv:
            if m not in c["thorough"]:
                c["thorough"].append(m)
        c["quick"] = [x for x in c["quick"] if x not in mv]
    if o["id"] == "C03.fixnum":
        # [10,0,0] needs ~300 s of solver time; with the old budget of 400 s it was cut short when the machine was overloaded
        o["max_case_s"] = max(o.get("max_case_s", 0), 900)
O = []
ROOT_FILES = ["zz_verif_c02.go"]


def ob(id, entry, quick, thorough, note, carves=(), pkg=".", reach=("read",), **kw):
    d = {"id": "C03.x." + id, "property": "C03", "pkg": pkg, "entry": entry, "reach": list(reach),
         "cases": {"quick": [list(c) for c in quick], "thorough": [list(c) for c in thorough]},
         "note": note}
    d["extra_files"] = list(ROOT_FILES)  # the root C03 harness files (compiled in every C03 run) use helpers of zz_verif_c02.go
    if carves:
        d["carves"] = list(carves)
    d.update(kw)
    O.append(d)


def uniq(l):
    seen, out = set(), []
    for c in l:
        t = tuple(c)
        if t not in seen:
            seen.add(t)
            out.append(t)
    return out


# ---- bignums: grid value k + symbolic band, base, radix ----
q = [(0, 10, 0, 8), (1, 16, 1, 8),  # symbolic bands across most-positive-fixnum+1 and most-negative-fixnum
     (0, 36, 0, 0), (1, 2, 0, 0), (2, 16, 0, 0), (2, 10, 1, 0), (3, 36, 1, 0), (4, 3, 0, 0), (5, 10, 0, 0), (5, 7, 1, 0), (6, 10, 0, 0),
     (6, 2, 1, 0), (7, 16, 0, 0), (8, 10, 1, 0), (8, 36, 0, 0), (9, 36, 0, 0), (9, 30, 1, 0)]
t = list(q) + [(0, 10, 0, 40), (1, 10, 0, 40), (0, 16, 0, 40), (0, 36, 0, 8), (2, 10, 1, 40), (2, 8, 0, 40), (5, 10, 0, 1000), (6, 10, 0, 40)]
for k in range(10):
    for base in (2, 3, 8, 10, 16, 17, 30, 36):
        for radix in (0, 1):
            t.append((k, base, radix, 0))
ob("bignum", "VerifC03XBig", q, uniq(t),
   "integer x = K + y, K one of 10 boundary values (+-2^63, +-2^64, 2^70, 10^20, +-10^40, 2^128-1, 36^13) and y SYMBOLIC "
   "(unbounded Int, |y| <= spread given per case: the band straddles the fixnum/bignum boundary for +-2^63), printed by the real "
   "Printer.Append -> Fixnum/Bignum.Readably in *print-base* base with *print-radix* (read under *read-base* 10) or without "
   "(read under *read-base* = *print-base*); the text of the symbolic bignum comes from the engine's digit model "
   "(x_c03.go: (*big.Int).Append like strconv.AppendInt: fork on sign/digit count, digits fresh integers with x = sum d_i base^i), "
   "read back by the real reader (intRx NFA model, strconv.ParseInt interpreted, big.Int.SetString model); value AND type "
   "(fixnum inside int64, bignum outside) must survive; spread 0 = the concrete grid value",
   int_mode=True, max_case_s=900, solver_timeout_ms=30000)

# ---- *read-base* = *print-base*, no radix ----
q = [(2, 8, 0), (10, 6, 1), (16, 3, 0), (30, 2, 0), (36, 3, 0)]
t = list(q) + [(8, 4, 1), (24, 3, 1)] + [(b, 3, 0) for b in range(2, 37)]
ob("readbase", "VerifC03XReadBase", q, uniq(t),
   "fixnum x symbolic with |x| < base^digits printed without *print-radix* in *print-base* base, alone or three times inside a "
   "nested list next to a symbol, and read with *read-base* = base: the reader must take the token as the same integer",
   carves=["C03-integer-digits-spell-t-or-nil"], int_mode=True, max_case_s=900)

# ---- ratios ----
q = [(10, 0, -1), (16, 0, -1), (2, 0, -1), (36, 0, -1), (16, 1, -1), (10, 1, 0)] + [(b, 0, i) for b, i in ((10, 0), (16, 1), (36, 2), (2, 3), (7, 4), (31, 6))]
t = list(q) + [(b, r, s) for b in (2, 3, 8, 10, 12, 16, 31, 36) for r in (0, 1) for s in range(-1, 7)]
ob("ratio", "VerifC03XRatio", q, uniq(t),
   "ratios: every n/d in lowest terms with |n| <= 12, 2 <= d <= 12 and a grid with bignum numerators/denominators, per "
   "*print-base* and *print-radix*; BOUNDED ENUMERATION executed by the engine (math/big.Rat is concrete-only), round trip "
   "through the real Ratio.Readably and the real reader (ratioRx, ParseInt / big.Int.SetString, NewRatio / NewBigRatio)",
   carves=["C03-ratio-radix-unreadable"])

# ---- floats ----
NS, ND, NL = 18, 21, 15
q = [(0, i, 2) for i in range(NS)] + [(1, i, 1) for i in range(ND)] + [(2, i, 2) for i in range(NL)]
q += [(0, 10, 1), (0, 10, 3), (0, 10, 4), (1, 10, 2), (1, 10, 3), (1, 10, 4), (2, 3, 3), (2, 9, 1), (2, 12, 3)]
t = [(k, i, ff) for k, n in ((0, NS), (1, ND), (2, NL)) for i in range(n) for ff in (1, 2, 3, 4)]
ob("float", "VerifC03XFloat", uniq(q), uniq(t),
   "single-, double- and long-floats printed readably and read under each *read-default-float-format*: bits and float type "
   "must survive (exponent markers s/d/L).  Floats are concrete-only in the engine: BOUNDED ENUMERATION of boundary values "
   "(+-0, smallest/largest denormal, smallest normal, max, 2^24-1..2^24+2, 2^53-1..2^53+2, 1/3, 0.1, 1e21, 1e22, 1e23, 1e-7, "
   "long-floats with 53, 64, 80, 100, 101 and 128 bits and exponents beyond the double range), executed by the engine through "
   "strconv/math/big natively",
   carves=["C03-long-float-loses-bits"])

# ---- strings, readably ----
NSTR = 22
q = [(0, i) for i in range(NSTR)] + [(1, 1), (1, 2), (1, 3), (2, 1)]
t = list(q) + [(1, 4), (2, 2)]
ob("string", "VerifC03XString", q, t,
   "strings printed with *print-readably*: (mode 1) n <= 3 (thorough 4) SYMBOLIC ASCII bytes - every byte value 0..127 at every position, "
   "(mode 2) 1 (thorough 2) SYMBOLIC Unicode scalar values (all of them except surrogates) UTF-8 encoded by the harness, (mode 0) a concrete grid (quotes, backslashes, "
   "newline, control characters, NUL, non-ASCII, text that looks like an escape).  The escaping is ojg.AppendJSONString of the "
   "external ojg module: the engine interprets its real body over the symbolic bytes (x_c03.go gives the package's table "
   "jMap its value; the printed text of the grid cases is noted and compared with the native run by the witness validation); "
   "the real reader (stringMode, escMode, runeMode) reads it back",
   max_case_s=900)

# ---- symbols that look like signed numbers ----
NNAMES = 27
q = [(0, i, 10) for i in range(NNAMES)] + [(0, i, 16) for i in (0, 2, 16, 17, 19)] + [(0, 18, 36), (1, 2, 10)]
t = list(q) + [(1, 2, 16)] + [(0, i, b) for i in range(NNAMES) for b in (2, 16, 36)] + [(1, 3, 10)]
ob("symnum", "VerifC03XSymNum", q, uniq(t),
   "symbols whose names look like signed numbers (-1 +3/4 -1.5 -1e5 +1.0d0 1+ -f +a/b ... grid of 27 names, and a SYMBOLIC "
   "name: a sign followed by 2 (thorough 3) bytes over {+ - 1 9 . / e f}) printed under *print-base* 10/16/36 and read with "
   "*read-base* = *print-base*: the printer (Symbol.Readably -> readsAsOther) must put bars around exactly those names the "
   "reader would take as a number", max_case_s=900)

# ---- nested structures under the printer control variables, flat and pretty ----
q = [(0, 3), (1, 7), (2, 2), (3, 1), (4, 4)]
t = uniq(q + [(sh, c) for sh in range(4) for c in (0, 1, 2, 3, 7, 8, 9)] + [(4, c) for c in (0, 4, 5, 6)])
ob("nest", "VerifC03XNest", q, t,
   "nested structures (lists of lists of vectors with dotted tails; vector of lists of vectors; depth 7; a 12-element list; "
   "integers in every position) with mixed leaves: ONE SYMBOLIC fixnum |x| < 1300 used in several places, ONE SYMBOLIC "
   "printable ASCII character, concrete symbols (needing bars, upper case, keyword), strings with escapes, ratio, single/double "
   "float, bignum, nil, empty vector.  Printer setting per case: defaults; *print-length*/*print-level*/*print-lines* = 2^40 and "
   "= max int (no limit); *print-miser-width* SYMBOLIC 0..200; base 16 with radix; base 2 and 36 without radix (read with "
   "*read-base* = *print-base*); *print-case* :upcase/:capitalize/nil.  Each object is printed flat AND pretty with the right "
   "margin SYMBOLIC in 1..200; both texts are read back by the real reader and must equal the original (so pretty printing "
   "only changes white space)", reach=("read", "readpretty"), max_case_s=1500, max_depth=3000, max_steps=200000000, carves=["C03-integer-digits-spell-t-or-nil"])

# ---- arrays ----
q = [(d, 10, 0, 0) for d in range(14)] + [(1, 16, 1, 0), (7, 36, 0, 1), (1, 10, 0, 1), (8, 16, 0, 1), (2, 3, 0, 0), (4, 16, 0, 1)]
t = [(d, b, r, pr) for d in range(14) for b in (2, 3, 10, 36) for r in (0, 1) for pr in (0, 1)] + [(13, 5, 0, 0), (1, 4, 0, 0), (7, 16, 1, 1)]
ob("array", "VerifC03XArray", q, t,
   "arrays of rank 0, 2, 3, 4 (14 dimension lists incl. zero dimensions in every position) whose first two elements are "
   "SYMBOLIC fixnums (|x| < 40), the others concrete, printed with *print-array* t under *print-base* 2..36 with/without "
   "*print-radix*, flat or pretty (margin 20), read back under *read-base* = *print-base*: dimensions and elements must "
   "survive (the #nA rank prefix has to stay decimal)",
   carves=["C03-array-rank-zero", "C03-array-zero-dimension", "C03-array-zero-then-nonzero-dimension", "C03-array-rank-in-print-base", "C03-integer-digits-spell-t-or-nil"], max_case_s=600)

# ---- quote forms ----
q = [(f, a, 0, 0) for f in range(5) for a in range(11)] + [(f, a, 1, 0) for f in range(5) for a in (0, 1, 2)] + [(f, a, 2, 0) for f in (0, 1, 3) for a in (0, 1)] + [(f, 1, 1, 1) for f in range(5)]
t = [(f, a, w, pr) for f in range(5) for a in range(11) for w in range(3) for pr in (0, 1)]
ob("quote", "VerifC03XQuote", uniq(q), t,
   "the objects the reader builds for ' ` #' , ,@ (cl quote/backquote/function/comma/comma-at, made through the real "
   "registry) around 11 argument kinds (symbol, list, SYMBOLIC fixnum, float, nil, string, character, vector, symbol with "
   "bars, ratio, bignum), at top level, inside a list, or around another quote; printed by the real printer with their prefix "
   "characters (flat or pretty with margin 12) and read back: same form and same argument",
   carves=["C03-function-form-prints-as-name", "C03-quote-prefix-before-non-token"])

# ---- printer control variables set from Lisp ----
q = [(0, 10, 0, 2, 0, 0, 0, 1), (0, 16, 1, 1, 0, 1, 0, 0), (1, 10, 0, 2, 1, 0, 0, 1), (1, 8, 1, 3, 0, 1, 0, 0), (2, 10, 0, 2, 1, 1, 2, 1),
     (2, 16, 1, 0, 0, 2, 0, 0), (2, 36, 0, 1, 0, 3, 1, 0), (0, 10, 0, 2, 0, 0, 1, 0), (1, 10, 0, 2, 0, 0, 1, 0), (0, 2, 0, 2, 0, 0, 0, 1)]
t = list(q) + [(0, 2, 0, 3, 1, 2, 2, 0), (0, 36, 0, 0, 0, 3, 0, 0), (1, 16, 0, 1, 0, 2, 2, 0), (0, 16, 0, 2, 0, 0, 0, 1)] + [(h, b, r, pc, pr, lim, mi, a) for h in (0, 1, 2) for b in (2, 10, 36) for r in (0, 1) for pc, pr, lim, mi, a in
               ((1, 1, 1, 2, 1), (2, 0, 2, 1, 0))]
ob("ctl", "VerifC03XCtl", q, uniq(t),
   "the printer control variables given from Lisp through the real registry: bound with let, assigned with setq (the real "
   "setters of the global printer, restored afterwards) or passed as write-to-string keywords: *print-base* x *print-radix* "
   "(read back under *read-base* = *print-base* when no radix is printed) x *print-case* x *print-pretty* with the right margin "
   "SYMBOLIC in 1..200 x *print-length*/*print-level*/*print-lines* unbound/nil/most-positive-fixnum/2^40 x *print-miser-width* "
   "unbound/nil/SYMBOLIC 0..100 x *print-array* t; object (x (Foo #(x \"s\\\"q\") . x) |a b| #\\c [2x2 array]) with x a SYMBOLIC "
   "fixnum |x| < 1300; (read-from-string (prin1-to-string obj)) / write-to-string must give back an equal object, and prin1 / "
   "write to a string stream (with-output-to-string) must produce the same text as the -to-string function",
   pkg="pkg/cl", carves=["C03-integer-digits-spell-t-or-nil", "C03-print-miser-width-nil-rejected", "C03-array-rank-in-print-base"],
   max_case_s=900, max_depth=3000)

q = [(w, s_, h) for w in range(6) for s_ in (0, 1) for h in (0, 1) if not (w == 5 and s_ == 1)]
ob("var", "VerifC03XVar", q, q,
   "a printer control variable (*print-length* *print-level* *print-lines* *print-right-margin* *print-miser-width* "
   "*print-base*) assigned with setq or bound with let holds the assigned value when evaluated: value SYMBOLIC over all "
   "non-negative fixnums (2..36 for the base), or nil",
   pkg="pkg/cl", carves=["C03-print-limit-max-int-reads-nil", "C03-print-miser-width-nil-rejected"])

# ---- character names in every letter case ----
q = [(s_, v) for s_ in range(8) for v in (0, 1, 2)] + [(0, 3), (2, 3), (5, 3), (7, 3)]
t = [(s_, v) for s_ in range(8) for v in (0, 1, 2, 3)]
ob("charname", "VerifC03XCharName", t, t,
   "the text the real printer writes for the named characters (Space Newline Tab Page Return Rubout Backspace) and for a "
   "SYMBOLIC control character (#\\u00XX) is read back by the real reader (pushChar, runeMap) as that character as printed, in "
   "upper case, in lower case, and (variant 3) with the case of every letter SYMBOLIC", max_case_s=600)

OUT = os.environ.get("C03_OUT") or PATH
json.dump(old + O, open(OUT, "w"), indent=1)
print("wrote", OUT, "with", len(old), "original and", len(O), "extension obligations")
for o in O:
    print(" ", o["id"], {k: len(v) for k, v in o["cases"].items()})
