#!/usr/bin/env python3
"""Generates /verif/harness/obligations.d/C13.json: the case lists are enumerations (bounded-exhaustive
histories / pre-state bit vectors), too long to maintain by hand.
Usage: python3 C13.gen.py [out.json]"""
import json, itertools, sys

IDS = ["", "C13-unuse-rebuild", "C13-use-copies-all", "C13-set-pushes-to-users", "C13-defun-not-propagated",
       "C13-fmakunbound-stale-in-users", "C13-unbind-inherited-local", "C13-unexport-inherited-flips-home",
       "C13-unbind-loses-export", "C13-export-placeholder", "C13-unbound-marker-value", "C13-single-colon-lenient",
       "C13-conflict-loser-lost", "C13-qualified-write", "C13-use-transitive", "C13-defun-inherited-placeholder"]

# universes: 0 = 2 packages, 1 variable; 1 = 2 packages, 1 function; 2 = 2 packages, variable + function;
# 3, 4, 5 = the same with 3 packages.
def shape(universe):
    np_ = 2 if universe < 3 else 3
    per = {0: 5, 1: 4, 2: 9}[universe % 3]      # name operations per package
    return np_, per

def nops(universe):
    np_, per = shape(universe)
    return np_ * (per + 2 * (np_ - 1))

def productive_first(universe):
    """operations (1-based, evaluated in package A) that change the empty initial state"""
    k = universe % 3
    np_, per = shape(universe)
    if k == 0:      # define setq unbind export unexport | use.. unuse..
        p = [1, 2, 4]
    elif k == 1:    # define unbind export unexport
        p = [1, 3]
    else:           # v: define setq unbind export unexport  f: define unbind export unexport
        p = [1, 2, 4, 6, 8]
    p += [per + 1 + 2 * i for i in range(np_ - 1)]     # use-package
    return p

def histories(universe, depth, every=0, pad=4, first=None):
    """all histories of exactly `depth` operations whose first operation is evaluated in package A
    (package symmetry); first: restrict the first operation"""
    n = nops(universe)
    np_, _ = shape(universe)
    f = n // np_
    if depth == 0:
        return [[universe, every] + [0] * pad]
    out = []
    for h in itertools.product(range(1, n + 1), repeat=depth):
        if h[0] > f or (first is not None and h[0] not in first):
            continue
        out.append([universe, every] + list(h) + [0] * (pad - depth))
    return out

def step_ops(universe, pre=True, two_arg=True):
    """operation indices for VerifC13Step: 0 = the pre-state itself, the operations evaluated in
    package A, and the two-argument forms (evaluated in A about B [and C])"""
    n = nops(universe)
    np_, per = shape(universe)
    f = n // np_
    nn = 2 if universe % 3 == 2 else 1
    nvar = 0 if universe % 3 == 1 else 1
    # two-argument export/unexport and use/unuse forms, then the qualified writes (defvar/defun p::n, setq p::v)
    extra = (np_ - 1) * (2 * nn + 2 * (np_ - 1)) + (np_ - 1) * (nn + nvar)
    out = [0] if pre else []
    out += list(range(1, f + 1))
    if two_arg:
        out += list(range(n + 1, n + extra + 1))
    return out

def nbits(universe):
    np_, _ = shape(universe)
    nn = 2 if universe % 3 == 2 else 1
    return np_ * nn * 2 + np_ * (np_ - 1)

def steps(universe, orders, states=None, ops=None):
    out = []
    sts = states if states is not None else range(1 << nbits(universe))
    for order in orders:
        for st in sts:
            for o in (ops if ops is not None else step_ops(universe)):
                out.append([universe, order, st, o])
    return out

# witnesses of the known findings: [region, universe, o1..o5]
WITNESS = [
    [1, 0, 1, 7, 0, 0, 0],     # A: defvar v; (unuse-package B) -> v unbound in A
    [1, 1, 1, 6, 0, 0, 0],     # same with a function
    [2, 0, 1, 8, 11, 6, 0],    # A: defvar v; B: defvar v, export v; A: use-package B -> A sees B's v
    [3, 0, 1, 13, 2, 0, 0],    # A: defvar v; B: use-package A; A: setq v -> B sees the unexported v
    [4, 1, 3, 11, 1, 0, 0],    # A: export f; B: use-package A; A: defun f -> (f) undefined in B
    [5, 1, 1, 3, 11, 2, 0],    # A: defun f, export f; B: use A; A: fmakunbound f -> B still calls f
    [6, 0, 1, 4, 13, 10, 0],   # A: defvar v, export; B: use A, makunbound v -> still bound in A
    [7, 0, 1, 4, 13, 12, 0],   # A: defvar v, export; B: use A, unexport v -> A:v no longer external
    [8, 0, 1, 4, 3, 1, 0],     # A: defvar v, export, makunbound, defvar -> no longer exported
    [9, 0, 4, 1, 13, 5, 0],    # A: export v, defvar v; B: use A; A: unexport v -> B still sees v
    [9, 0, 6, 11, 1, 0, 0],    # A: use B; B: export v; A: defvar v -> A gets an own v, B's stays unbound
    [10, 0, 4, 0, 0, 0, 0],    # A: export v -> A:v evaluates to the unbound marker object
    [11, 1, 1, 0, 0, 0, 0],    # A: defun f -> (A:f) callable from A although not exported
    [11, 0, 1, 4, 13, 0, 0],   # A: defvar v, export; B: use A -> B:v resolves
    [14, 3, 19, 22, 17, 6, 0],  # C: defvar v, export; B: use C; A: use B -> v visible in A (use is transitive)
    [15, 1, 3, 11, 7, 0, 0],    # A: export f; B: use A; B: defun f -> A:f stays undefined
]
# [region, universe, order, state, op]: B and C define + export v, A uses both, C: unexport v -> v unbound in A
WITNESS_STEP = [[12, 3, 0, 252, 23],
                # empty state, A: (setq B::v x) -> nothing happens; B defines v, A: (defvar B::v x) -> overwritten
                [13, 0, 0, 0, 20], [13, 0, 0, 4, 19]]

COMMON_NOTE = (
    "Real Lisp forms (defpackage with :use cl cl-user [and :export], in-package, defvar, setq, makunbound, defun, "
    "fmakunbound, export, unexport, use-package, unuse-package; one- and two-argument forms) are evaluated through the "
    "function registry on fresh packages (concrete names; the engine undoes the heap between cases, natively one case "
    "per process). Afterwards, with *package* set to every test package, every name is resolved as plain name, p:name and "
    "p::name for every test package p (variables: the symbol is evaluated; functions: (name) is called) and the outcome "
    "(fixnum value / unbound-variable or undefined-function condition / anything else) is compared with a reference "
    "model written from the Common Lisp package rules restricted to: symbol present in a package (defined or exported "
    "there), bound, value, exported, uses edges; plain name and p::name = the package's own symbol else an exported "
    "symbol of a used package (any candidate when several); p:name = own and exported. SYMBOLIC: every value given to "
    "defvar/setq/defun (64-bit fixnums x0, x1, ...), so a stale or foreign binding is a value mismatch for the solver to "
    "decide; the operation sequence / flag bits are case parameters (concrete skeleton). OUTSIDE THE MODEL (case ends, "
    "tag out-of-model): writes through a name conflict, export of a merely inherited name (CL re-export), a present-but-"
    "unbound symbol shadowing an inherited one (CL name conflict). KNOWN FINDINGS: observations inside the region of a "
    "known defect (a taint computed by the model: package/name pairs the defect can have damaged) are skipped here and "
    "asserted by C13.findings/C13.findings-step behind vrt.Carve; switch zzC13Known[i] off in the harness when a defect is "
    "repaired. Test packages use cl-user as well as cl because the condition classes live in cl-user and signalling from a "
    "package that cannot see them is a nil dereference in slip.FindClass (outside this property, reported). Not covered: "
    "qualified writes in histories (they are operations of the step obligations only), p:name writes, import/shadow/intern/unintern/delete-package, "
    "classes, the Go-side Import/Define API, the reader-compile path that plants placeholder functions, same name used "
    "as variable and function, packages locked or with nicknames.")


# ---------------------------------------------------------------------------------------------
# extension (zz_verif_c13_ext*.go): operation table of VerifC13XHistory, mirrored from zzC13XOps
XK = ["define", "defparameter", "setq", "unbind", "export", "unexport", "use", "unuse", "define::", "setq::", "setq:",
      "export2", "unexport2", "use2", "unuse2"]

def xops():
    ops = []
    for cur in range(3):
        for k in range(4):
            ops.append(("define", cur, k, 0))
            if k < 2:
                ops.append(("defparameter", cur, k, 0))
                ops.append(("setq", cur, k, 0))
            ops.append(("unbind", cur, k, 0))
            ops.append(("export", cur, k, 0))
            ops.append(("unexport", cur, k, 0))
        for t in range(3):
            if t != cur:
                ops.append(("use", cur, 0, t))
                ops.append(("unuse", cur, 0, t))
        for t in range(3):
            if t == cur:
                continue
            for k in range(4):
                ops.append(("define::", cur, k, t))
                if k < 2:
                    ops.append(("setq::", cur, k, t))
                    ops.append(("setq:", cur, k, t))
            for k in (0, 2):
                ops.append(("export2", cur, k, t))
                ops.append(("unexport2", cur, k, t))
            ops.append(("use2", cur, 0, t))
            ops.append(("unuse2", cur, 0, t))
    return ops

XOPS = xops()
XIDX = {op: i + 1 for i, op in enumerate(XOPS)}
A, B, C = 0, 1, 2
V0, V1, F2, F3 = 0, 1, 2, 3

def X(kind, cur, k=0, tgt=0):
    return XIDX[(kind, cur, k, tgt)]

def xcase(init, mode, ops, pad=6):
    return [init, mode] + list(ops) + [0] * (pad - len(ops))

def xinit(b_uses_a=0, c_uses_a=0, c_uses_b=0, exports=()):
    v = b_uses_a | c_uses_a << 1 | c_uses_b << 2
    for p, k in exports:
        v |= 1 << (3 + 4 * p + k)
    return v

# weights of the operation kinds when histories are sampled
XW = {"define": 6, "defparameter": 2, "setq": 3, "unbind": 3, "export": 6, "unexport": 4, "use": 8, "unuse": 5,
      "define::": 1, "setq::": 1, "setq:": 1, "export2": 1, "unexport2": 1, "use2": 2, "unuse2": 1}

def xsample(rng, n, depth):
    out = []
    w = [XW[o[0]] for o in XOPS]
    idx = list(range(1, len(XOPS) + 1))
    for _ in range(n):
        init = 0
        r = rng.random()
        if r < 0.3:
            init = rng.randrange(1 << 15)
        elif r < 0.6:
            init = rng.randrange(8) | (rng.randrange(1 << 12) & rng.randrange(1 << 12)) << 3
        out.append(xcase(init, rng.randrange(3), rng.choices(idx, weights=w, k=depth)))
    return out

# the sequences named in the lead's list (each compared after every step, in all three observer modes)
def xseqs():
    s = []
    # export before defun, unexport, fmakunbound, defun again: the export status must not come back
    s.append((0, [X("use", B, tgt=A), X("export", A, F2), X("define", A, F2), X("unexport", A, F2), X("unbind", A, F2), X("define", A, F2)]))
    s.append((xinit(b_uses_a=1), [X("export", A, F2), X("define", A, F2), X("unexport", A, F2), X("unbind", A, F2), X("define", A, F2), X("use", C, tgt=A)]))
    s.append((xinit(b_uses_a=1, exports=[(A, F2)]), [X("define", A, F2), X("unexport", A, F2), X("unbind", A, F2), X("define", A, F2), X("export", A, F2), X("unbind", A, F2)]))
    # the user defines its own x first, the home package defines and exports x, use-package, home setq again, unuse
    s.append((0, [X("define", B, V0), X("define", A, V0), X("export", A, V0), X("use", B, tgt=A), X("setq", A, V0), X("unuse", B, tgt=A)]))
    s.append((0, [X("setq", B, V0), X("export", A, V0), X("use", B, tgt=A), X("define", A, V0), X("defparameter", A, V0), X("unuse", B, tgt=A)]))
    s.append((0, [X("define", B, F2), X("define", A, F2), X("export", A, F2), X("use", B, tgt=A), X("define", A, F2), X("unuse", B, tgt=A)]))
    # the user (already attached) has its own name; the home package defines and exports the same name later
    s.append((xinit(b_uses_a=1), [X("define", B, V0), X("define", A, V0), X("export", A, V0), X("setq", A, V0), X("unexport", A, V0), X("unuse", B, tgt=A)]))
    s.append((xinit(b_uses_a=1), [X("define", B, F2), X("define", A, F2), X("export", A, F2), X("define", A, F2), X("unexport", A, F2), X("unuse", B, tgt=A)]))
    s.append((xinit(b_uses_a=1, c_uses_a=1), [X("define", B, V0), X("export", A, V0), X("define", A, V0), X("unbind", A, V0), X("setq", C, V0), X("unbind", B, V0)]))
    # use, unuse, use again
    s.append((xinit(exports=[(A, V0), (A, F2)]), [X("define", A, V0), X("define", A, F2), X("use", B, tgt=A), X("unuse", B, tgt=A), X("use", B, tgt=A), X("setq", B, V0)]))
    s.append((0, [X("define", A, V0), X("use", B, tgt=A), X("export", A, V0), X("unuse", B, tgt=A), X("unexport", A, V0), X("use", B, tgt=A)]))
    # two used packages export the same name: a conflict, then the winner/loser retracts
    s.append((0, [X("define", A, V0), X("export", A, V0), X("define", B, V0), X("export", B, V0), X("use", C, tgt=A), X("use", C, tgt=B)]))
    s.append((xinit(c_uses_a=1, c_uses_b=1), [X("define", A, F2), X("export", A, F2), X("define", B, F2), X("export", B, F2), X("unexport", B, F2), X("unexport", A, F2)]))
    s.append((xinit(c_uses_a=1, c_uses_b=1), [X("define", A, V0), X("export", A, V0), X("define", B, V0), X("export", B, V0), X("unuse", C, tgt=B), X("unuse", C, tgt=A)]))
    # transitive use: C uses B uses A, A's exports are not visible in C; after unexport nothing may remain
    s.append((xinit(b_uses_a=1), [X("define", A, F2), X("export", A, F2), X("use", C, tgt=B), X("unexport", A, F2), X("define", A, F2)]))
    s.append((xinit(b_uses_a=1, c_uses_b=1), [X("define", A, V0), X("export", A, V0), X("setq", A, V0), X("unuse", B, tgt=A), X("unexport", A, V0)]))
    s.append((xinit(b_uses_a=1, exports=[(A, F2), (A, V0)]), [X("define", A, F2), X("define", A, V0), X("use", C, tgt=B), X("unexport", A, F2), X("unexport", A, V0), X("unuse", C, tgt=B)]))
    # qualified writes
    s.append((xinit(b_uses_a=1), [X("define::", B, V0, A), X("setq::", C, V0, A), X("export", A, V0), X("setq:", C, V0, A), X("setq:", C, V0, B), X("define::", C, F2, A)]))
    # use-package of the same package twice, one unuse-package: nothing the former home package does afterwards reaches the former user
    s.append((0, [X("use", B, tgt=A), X("use", B, tgt=A), X("unuse", B, tgt=A), X("define", A, V0), X("export", A, V0), X("setq", A, V0)]))
    s.append((xinit(b_uses_a=1), [X("use", B, tgt=A), X("unuse", B, tgt=A), X("export", A, F2), X("define", A, F2), X("define", A, V0), X("export", A, V0)]))
    # an exported function undefined and defined again (once, twice) while another package uses its home: the users get it back
    s.append((0, [X("export", A, F2), X("define", A, F2), X("use", B, tgt=A), X("unbind", A, F2), X("define", A, F2), X("define", A, F2)]))
    s.append((xinit(b_uses_a=1), [X("define", A, F2), X("export", A, F2), X("unbind", A, F2), X("define", A, F2), X("unbind", A, F2), X("define", A, F2)]))
    s.append((xinit(b_uses_a=1, c_uses_a=1, exports=[(A, F2)]), [X("define", A, F2), X("unbind", A, F2), X("define", A, F2), X("unuse", C, tgt=A), X("unbind", A, F2), X("define", A, F2)]))
    out = []
    for init, ops in s:
        for mode in range(3):
            out.append(xcase(init, mode, ops))
    return out

XIDS = ["", "C13-conflict-loser-lost", "C13-use-transitive", "C13-defun-inherited-placeholder",
        "C13-single-colon-write-inherited", "C13-symbol-value-unbound-marker", "C13-fmakunbound-placeholder-not-in-users",
        "C13-find-symbol-placeholder-shadows-own"]

# witnesses of the regions of VerifC13XHistory: [region, init, mode, o1..o6]
XWITNESS = [
    [1] + xcase(xinit(c_uses_a=1, c_uses_b=1), 0, [X("define", A, V0), X("export", A, V0), X("define", B, V0), X("export", B, V0), X("unexport", B, V0)]),
    [2] + xcase(xinit(b_uses_a=1), 0, [X("define", A, V0), X("export", A, V0), X("use", C, tgt=B)]),
    [3] + xcase(xinit(b_uses_a=1, exports=[(A, F2)]), 0, [X("define", B, F2)]),
    [4] + xcase(xinit(b_uses_a=1), 0, [X("define", A, V0), X("export", A, V0), X("setq:", C, V0, B)]),
    [5] + xcase(0, 1, [X("export", A, V0)]),
    [6] + xcase(xinit(b_uses_a=1), 2, [X("export", A, F2), X("define", A, F2), X("unbind", A, F2)]),
    [7] + xcase(0, 2, [X("define", B, F2), X("define", A, F2), X("export", A, F2), X("use", B, tgt=A)]),
]

XNOTE = (
    "EXTENSION (zz_verif_c13_ext.go). 3 packages A, B, C created by defpackage with (:use cl cl-user [A] [B]) and (:export ...) "
    "options from the case parameter init (bit 0: B uses A, 1: C uses A, 2: C uses B, 3+4p+k: package p exports name k), 2 "
    "variable names and 2 function names. Parameters (init, mode, o1..o6): o_i index a table of 156 operation instances: for "
    "every package as *package* (in-package is evaluated whenever it changes): defvar/defun, defparameter, setq, makunbound/"
    "fmakunbound, export, unexport of each name; use-package/unuse-package of each other package; (defvar p::v x)/(defun p::f () x), "
    "(setq p::v x), (setq p:v x) for each other package p; (export 'n p), (unexport 'n p), (use-package p q), (unuse-package p q). "
    "After the defpackage forms and after EVERY operation, with *package* set to each package, every name is resolved as plain "
    "name, p:name and p::name for every p by the observer of the case: mode 0 evaluates the symbol / calls (name); mode 1 "
    "(symbol-value 'n) / (funcall 'n) and for plain names also boundp / fboundp; mode 2 the symbol / (apply 'n nil) and for plain "
    "names also the status returned by find-symbol. The outcome is compared with a reference model written from the property "
    "statement (own symbol first, else an exported symbol of a directly used package, p:name = what p itself exports, p::name = "
    "what is visible in p). SYMBOLIC: every value given to defvar/defparameter/setq/defun (64-bit). Operation sequences are case "
    "parameters (concrete skeleton): the quick/thorough lists are pseudo-random samples (fixed seed, weighted towards define/"
    "export/use) — this is sampling of the history space, each sampled history is then decided for all values by the solver. "
    "OUT OF MODEL (case ends): writes through a name conflict, export of a merely inherited name, a present-but-unbound own "
    "symbol shadowing an inherited one. REGIONS of open defects are computed from the model state; inside a region the exact "
    "expectation is replaced by weak ones that are still asserted in the main run (outcome is a value or unbound; a value is "
    "the current value of that name in some package; a function callable where it is not owned is exported by some package), "
    "except after a write went through a damaged resolution. find-symbol of an unexported symbol that was unbound again may "
    "report nil (slip drops the record) — accepted. ")

YIDS = ["", "C13-export-per-cell", "C13-find-symbol-other-package", "C13-defparameter-qualified", "C13-unintern-inherited",
        "C13-unintern-keeps-function", "C13-do-external-inherited", "C13-defconstant-unbound-record", "C13-intern-status",
        "C13-exports-list-stale", "C13-locked-export", "C13-locked-rename", "C13-locked-defun-new", "C13-locked-unbind-local",
        "C13-keyword-setq", "C13-import-one-record", "C13-class-unuse-stale", "C13-class-clobbers-user", "C13-locked-fmakunbound",
        "C13-boundp-qualified", "C13-import-unexported-function"]
# number of variants per scenario of VerifC13XApi
YNV = [4, 6, 3, 4, 5, 4, 3, 21, 4, 5, 4, 8]
# (scenario, variant) pairs in which the expectations tagged with a finding fail on the unchanged tree
YWIT = {1: [(0, 0), (0, 3)], 2: [(1, 0), (1, 1)], 3: [(2, 0)], 4: [(3, 0)], 5: [(3, 1)], 6: [(4, 1)], 7: [(5, 1), (5, 2)],
        8: [(1, 3)], 9: [(6, 0), (6, 1)], 10: [(7, 0), (7, 1), (7, 18)], 11: [(7, 2)], 12: [(7, 3), (7, 17)],
        13: [(7, 8), (7, 9)], 14: [(8, 0), (8, 1)], 15: [(10, 0), (10, 2)], 16: [(11, 2), (11, 3)], 17: [(11, 4)],
        18: [(7, 7)], 19: [(2, 2)], 20: [(10, 1)]}
YNOTE = (
    "EXTENSION (zz_verif_c13_ext2.go): scripted scenarios (scenario, variant) of real Lisp forms on three fresh packages, values "
    "SYMBOLIC (y0, y1, ...), every expectation written next to the form from the Common Lisp package rules / the property "
    "statement. Scenarios: 0 a name that is variable and function (export is per symbol; 4 orders of defvar/defun/export); 1 "
    "find-symbol and intern status (:internal :external :inherited nil) for variables and functions, with a package argument from "
    "each of the three packages and from inside; 2 defparameter/defvar/setq of p::name, boundp/fboundp/symbol-value/funcall/apply "
    "of qualified names; 3 unintern (inherited, own with function, exported with users, with package argument); 4 do-symbols, "
    "do-external-symbols, do-all-symbols, find-all-symbols, package-use-list / package-used-by-list through use, use again, "
    "unuse, use; 5 defconstant (setq/defvar/let/redefinition rejected, exported constant in a user, placeholder and unbound "
    "records, p::name); 6 Package.Exports and describe after unexport / repeated export; 7 locked package: 21 operations "
    "(export, unexport, rename-package, defun new/redefine, defvar, defparameter, defconstant, makunbound, fmakunbound at home "
    "and in a user, unintern, use-package, unuse-package, delete-package, qualified writes) must be rejected (makunbound/"
    "fmakunbound may return) and 16 observations of the tables (home and user, plain, p:name, p::name) must be unchanged, then "
    "unlock-package; 8 keywords (evaluate to themselves; setq/defvar rejected; symbol-value, keywordp, intern/find-symbol in "
    "keyword); 9 delete-package (in use: rejected; user deleted: forgotten by the used package; *package* itself) and "
    "rename-package; 10 Package.Import called through the Go API (exported / unexported variable and function, name that is "
    "both, follows later setq, survives unuse-package, not passed on to users, unknown name); 11 classes per package "
    "(defclass and defflavor): find-class from an unrelated package, after use-package, after unuse-package, through a chain of "
    "users, the user's own class of the same name, class defined after the use edge. Expectations tagged with a recorded defect "
    "are skipped in the main run and asserted by the C13.x.api.finding.* obligations behind vrt.Carve. apropos (writes to the "
    "process' stdout) is not covered. ")

def main():
    quick_h = [[0, 0, 0, 0, 0, 0], [1, 0, 0, 0, 0, 0]]
    for u in (0, 1):
        quick_h += histories(u, 1) + histories(u, 2)
    quick_h += histories(0, 3, first=[1, 4, 6])     # first operation: defvar, export, use-package
    quick_h += histories(1, 3, first=[1, 3])        # first operation: defun, export
    quick_h += histories(2, 2, every=1, first=[1, 6])
    seen = set(map(tuple, quick_h))
    thorough_h = list(quick_h)
    def add(cs):
        for c in cs:
            if tuple(c) not in seen:
                seen.add(tuple(c))
                thorough_h.append(c)
    for u in (0, 1):
        add(histories(u, 3))
        add(histories(u, 4, first=productive_first(u)))
        add(histories(u, 3, every=1))
    add(histories(2, 0) + histories(2, 1) + histories(2, 2) + histories(2, 3, first=productive_first(2)))
    for u in (3, 4):
        for d in (0, 1, 2):
            add(histories(u, d))
        add(histories(u, 3, first=productive_first(u)))
    add(histories(5, 1) + histories(5, 2, first=productive_first(5)))

    quick_s = []
    for u in (0, 1):
        quick_s += steps(u, [0], ops=step_ops(u, pre=False, two_arg=False))
        quick_s += steps(u, [0], ops=step_ops(u)[-(2 if u == 0 else 1):])     # the qualified writes
    seen_s = set(map(tuple, quick_s))
    thorough_s = list(quick_s)
    for u in (0, 1):
        for c in steps(u, range(8)):
            if tuple(c) not in seen_s:
                seen_s.add(tuple(c))
                thorough_s.append(c)
    # three packages: C defines and exports the name (bits 4 and 5), everything else free
    c11 = [s for s in range(1 << 12) if s & 0x30 == 0x30]
    thorough_s3 = (steps(3, [0], states=c11, ops=step_ops(3, pre=False)) +
                   steps(4, [0], states=c11, ops=step_ops(4, pre=True, two_arg=False)))
    quick_s3 = steps(3, [0], states=[252, 3087, 0xFF0 | 0x3C], ops=step_ops(3, pre=True, two_arg=False))

    common = {"property": "C13", "pkg": "pkg/cl", "max_depth": 400, "max_steps": 50000000, "solver_timeout_ms": 10000,
              "assumptions": [
                  "resolving a name (evaluating a symbol, calling a function) does not change package tables: most history cases compare only after their last operation, every prefix being a case of its own; the every=1 cases compare after each step",
                  "package symmetry: the first operation of a history / the operation of a step case is evaluated in package A",
              ]}
    spec = [
        dict(common, id="C13.history", entry="VerifC13History", reach=["compared"],
             cases={"quick": quick_h, "thorough": thorough_h},
             note="(ii) histories from the initial state, parameters (universe, every, o1..o4): universe 0/1/2 = 2 packages with "
                  "1 variable / 1 function / both, 3/4/5 = 3 packages; the operation table has, per package as *package*, "
                  "define, setq (variables), unbind, export, unexport, use-package and unuse-package of each other package "
                  "(14 / 12 / 22 instances for 2 packages, 27 / 24 / 42 for 3). QUICK: universes 0 and 1, every history of "
                  "length 0..2, length 3 with first operation defvar/export/use-package (variable) or defun/export (function); "
                  "universe 2 length 2 (first operation defvar or defun) comparing after every step. THOROUGH: universes 0 and 1 exhaustively to length 3 (also comparing "
                  "after every step) and length 4 with a first operation that changes the empty state (define, setq, export, "
                  "use-package); universe 2 to length 3, universes 3 and 4 to length 3 (longest length: first operation as "
                  "before), universe 5 to length 2. " + COMMON_NOTE),
        dict(common, id="C13.step", entry="VerifC13Step", reach=["compared"],
             cases={"quick": quick_s, "thorough": thorough_s},
             note="(i) one operation from an arbitrary pre-state of 2 packages, parameters (universe, order, state, op): the state "
                  "bits (per package: defines the name, exports it; per ordered pair: uses) are realised through the real API in "
                  "a canonical order (0..5: the phases define/export/use in the six permutations; 6, 7: exports given to "
                  "defpackage (:export), then define/use in both orders); op 0 compares the pre-state itself with the model "
                  "(so only reachable, model-coherent states are used), op > 0 performs that operation (evaluated in package A, "
                  "including the two-argument forms (export 'n B), (unexport 'n B), (use-package B A), (unuse-package B A) "
                  "and the qualified writes (defvar B::v x) / (defun B::f () x), (setq B::v x)) and compares. QUICK: order 0, all 64 states, the one-argument operations and the qualified writes. THOROUGH: "
                  "all 8 orders x 64 states x all operations, variable and function universe. " + COMMON_NOTE),
        dict(common, id="C13.step3", entry="VerifC13Step", reach=["compared"],
             cases={"quick": quick_s3, "thorough": thorough_s3},
             note="(i) with 3 packages (12 state bits): THOROUGH: construction order 0, the 1024 states in which package C defines "
                  "and exports the name, variable universe: all 25 operations evaluated in A (one- and two-argument forms and qualified writes about B "
                  "and C); function universe: the pre-state and the 8 one-argument operations (the other 3072 states per universe were explored natively with concrete values only, "
                  "see the report). QUICK: three name-conflict states. " + COMMON_NOTE),
    ]
    fnote = ("witness case(s) of one known finding, parameters (region, universe, o1..o5) [three-package findings: (region, "
             "universe, order, state, op) as in C13.step3]: only the observations inside that finding's region are asserted, "
             "behind vrt.Carve(id, true); the main run therefore ends these cases at the carve-out and the per-finding probe "
             "run must still find the natively reproducing violation. One obligation per finding keeps a probe run to its "
             "own cases. " + COMMON_NOTE)
    for r in range(1, len(IDS)):
        ws = [w for w in WITNESS if w[0] == r]
        entry = "VerifC13Finding"
        if not ws:
            ws = [w for w in WITNESS_STEP if w[0] == r]
            entry = "VerifC13FindingStep"
        spec.append(dict(common, id="C13.finding." + IDS[r][4:], entry=entry, reach=[], carves=[IDS[r]],
                         cases={"quick": ws, "thorough": ws}, note=fnote))
    import random
    rng = random.Random(1313)
    xq = xsample(rng, 120, 4) + xsample(rng, 40, 6)
    xt = list(xq) + xsample(rng, 1000, 5) + xsample(rng, 1000, 6)
    xs = xseqs()
    xcommon = dict(common, assumptions=["resolving a name has no side effect on the package tables is NOT assumed here: every case compares after every step"])
    spec += [
        dict(xcommon, id="C13.x.history", entry="VerifC13XHistory", reach=["compared"],
             cases={"quick": xq, "thorough": xt},
             note="sampled histories: quick 120 of length 4 and 40 of length 6, thorough additionally 1000 of length 5 and 1000 of "
                  "length 6. " + XNOTE),
        dict(xcommon, id="C13.x.seq", entry="VerifC13XHistory", reach=["compared"],
             cases={"quick": xs, "thorough": xs},
             note="hand-picked sequences of 5-6 operations the step/history obligations cannot reach, each in the three observer "
                  "modes: export before defun, unexport, fmakunbound, defun again (the export status must not come back), with the "
                  "user attached before or after; a user that defines its own name first, then the home package defines and exports "
                  "it, use-package, the home package sets it again, unuse-package (the user's own binding survives with its value); "
                  "use, unuse, use again; two used packages exporting the same name, then one retracts; transitive use (C uses B "
                  "uses A: A's exports are not visible in C; after unexport nothing of it is callable); qualified writes. " + XNOTE),
    ]
    for r in range(1, len(XIDS)):
        ws = [w for w in XWITNESS if w[0] == r]
        spec.append(dict(xcommon, id="C13.x.finding." + XIDS[r][4:], entry="VerifC13XFinding", reach=[], carves=[XIDS[r]],
                         cases={"quick": ws, "thorough": ws},
                         note="witness history of one open defect as seen by VerifC13XHistory, parameters (region, init, mode, o1..o6): only "
                              "the exact expectations inside that region are asserted, behind vrt.Carve(id, true). " + XNOTE))
    yall = [[scn, v] for scn in range(len(YNV)) for v in range(YNV[scn])]
    spec.append(dict(xcommon, id="C13.x.api", entry="VerifC13XApi", reach=["compared"], opaque_int_text=True, cases={"quick": yall, "thorough": yall},
                     note="all scenarios and variants. " + YNOTE))
    for fid in range(1, len(YIDS)):
        ws = [[fid, scn, v] for scn, v in YWIT[fid]]
        spec.append(dict(xcommon, id="C13.x.api.finding." + YIDS[fid][4:], entry="VerifC13XApiFinding", reach=[], carves=[YIDS[fid]],
                         cases={"quick": ws, "thorough": ws},
                         note="the scenarios in which one recorded defect shows, parameters (finding, scenario, variant): only the "
                              "expectations tagged with that finding are asserted, behind vrt.Carve(id, true). " + YNOTE))
    out = sys.argv[1] if len(sys.argv) > 1 else "/verif/harness/obligations.d/C13.json"
    json.dump(spec, open(out, "w"), separators=(",", ":"))
    for s in spec:
        print(s["id"], {k: len(v) for k, v in s["cases"].items()})

if __name__ == "__main__":
    main()
