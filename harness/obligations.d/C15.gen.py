# Generates C15.json (case lists and notes of the C15 obligations): python3 C15.gen.py
import json, itertools
def pm(m0=0,m1=0,m2=0,m3=0): return m0+4*m1+12*m2+36*m3
O=[]
def ob(id, entry, quick, thorough, note, carves=(), reach=("compared",), **kw):
    d={"id":"C15."+id,"property":"C15","pkg":"pkg/cl","entry":entry,
       "cases":{"quick":[list(c) for c in quick],"thorough":[list(c) for c in thorough]},
       "reach":list(reach),"max_depth":800,"max_steps":50000000,"solver_timeout_ms":120000,
       "carves":list(carves),"note":note}
    d.update(kw); O.append(d)
def uniq(l):
    seen=set(); out=[]
    for c in l:
        t=tuple(c)
        if t not in seen: seen.add(t); out.append(t)
    return out

# ---- int ----
ALLV=pm(2,2,2,2)
q=[(0,0,0,1,0),(0,0,0,7,0),(1,0,0,20,0),(2,0,0,8,0),(3,0,0,6,0),(7,2,0,3,0),(4,0,0,2,0),
   (0,1,0,7,0),(0,3,0,4,0),(0,4,0,5,0),(3,1,0,6,0),(1,3,0,9,0),
   (0,2,pm(1),2,0),(0,0,pm(3),2,2),(0,1,pm(2,0,0,3),5,1),(0,3,pm(2,2,0,3),4,2),(0,1,pm(0,0,0,2),6,0),(0,1,pm(0,0,2,1),3,0),(0,1,pm(0,0,1),4,0),(2,3,pm(2,2),2,0)]
heavy=[(0,0,pm(1,1),1,0),(0,2,pm(1),4,0),(0,1,pm(0,0,2,1),5,0),(0,0,pm(1,1),3,0),(0,1,pm(0,2,2,2),4,0),(2,3,pm(2,2),3,0)]
t=list(q)+heavy
for d in range(4):
    nds={0:[1,2,3,4,5,6,7],1:[1,2,7,13,24],2:[1,2,5,8],3:[1,2,4,6]}[d]
    for m in range(5):
        for nd in nds:
            t.append((d,m,0,nd,0))
for d in (4,5,6,7): t.append((d,3,0,3,0))
for d,nd in ((0,4),(1,6),(2,4),(3,3)):
    for m in (0,3):
        for p in (pm(1),pm(2),pm(3),pm(1,1),pm(1,2),pm(2,2),pm(0,1),pm(0,0,1),pm(0,0,2),pm(0,0,0,1),pm(0,0,0,2),pm(0,0,2,2),pm(1,0,0,1),pm(1,1,1,1),pm(3,2,2,2),pm(2,0,0,2)):
            t.append((d,m,p,nd,1 if p%4==3 else 0))
t.append((0,3,ALLV,5,0)); t.append((0,1,ALLV,7,0))
for d,nd in ((0,6),(1,7),(3,4)):
    for p in (pm(0,0,0,3),pm(2,0,0,3),pm(2,2,2,3),pm(3,0,0,3),pm(0,2,0,3)):
        for ex in (0,1,2): t.append((d,1,p,nd,ex))
ob("int","VerifC15Int",uniq(q),uniq(t),
 "Real control.process on \"~<params><mods><D|B|O|X>\" built from the case parameters (dir: D B O X and lower case; mods: none, :, @, :@, @:; pm: each of mincol/padchar/commachar/commaint omitted, literal, by v, mincol also by #, commaint also by # (read after the v parameters of the same directive took their arguments); nd: digit count in the directive's base; extra trailing arguments). Symbolic: the integer (any magnitude with nd digits, base 10 nd<=7 i.e. |x|<10^7, base 2 nd<=24, base 8 nd<=8, base 16 nd<=6; sign symbolic), mincol 0..12 (literal: symbolic digit bytes in the control string; v: case split to a concrete fixnum because getIntParam converts through float64, which the engine keeps concrete), commaint 1..12 (case split in both modes: slip divides by it), padchar/commachar symbolic printable ASCII bytes (literal 'c in the control string or a Character by v). Oracle zzC15RefInt: CLHS 22.3.2.2 over the oracle's own positional digits ((m/base^k)%base), '-' / '+' with @, commachar every commaint digits from the right with :, left padding with padchar to mincol; lower-case digits above 9 (CLHS does not fix their case; slip's choice). Also asserted: no Go fault, no condition, exactly the v arguments + 1 consumed. Engine model (core engine, fmtint.go): strconv.AppendInt on a symbolic integer forks on sign and digit count and yields (x/base^k)%base digit terms.",
 carves=["C15-quoted-dirchar-param"])

# ---- intother ----
q=[(0,0,0,2,0),(0,0,1,2,0),(0,0,1,1,2),(3,1,1,3,0),(0,2,1,6,0),(1,0,0,4,0),(2,3,1,5,0)]
t=uniq(q+[(d,m,p,k,n) for d in (0,1,2,3,4) for m in (0,3) for p in (0,1) for (k,n) in ((1,1),(1,3),(2,0),(3,0),(4,0),(5,0),(6,0),(7,0),(8,0),(9,0),(10,0))])
ob("intother","VerifC15IntOther",q,t,
 "~mincol,padchar<D|B|O|X> (both by v; mincol 0..12 case split, padchar symbolic printable) with a non-integer argument from the pool (string of n symbolic printable bytes, symbol, symbolic graphic character, nil, t, lists, keyword, empty string). Oracle: CLHS 22.3.2.2 / format docstring: the ~A text (real princ on a harness stream) padded on the left to mincol. Region of the known finding = arguments whose prin1 text differs from the princ text (strings, characters, lists containing them).",
 carves=["C15-int-nonint-escaped"])

# ---- radix ----
q=[(8,1,0,0,2),(16,2,3,0,2),(2,1,1,pm(1),3)]
t=uniq(q+[(r,rm,m,p,2) for r in (2,8,10,36) for rm in (1,2) for m in (0,1,2,3) for p in (0,pm(1,1))])
ob("radix","VerifC15Radix",q,t,
 "~radix,mincol,padchar,commachar,commaintR (radix literal or by v, radix from the case list 2..36, other parameters as C15.int) over every nd-digit integer in that radix (digits enumerated by engine forks, sign symbolic) against zzC15RefInt in that radix. The whole obligation lies inside known finding C15-radix-param-ignored (dirR never reads its parameters): the main run only witnesses reachability, the probe run must reproduce the violation.",
 carves=["C15-radix-param-ignored"])

# ---- english, bignums ----
q=[(0,0,1,19,1),(1,0,2,30,1),(0,0,1,62,1),(0,0,7,63,1),(1,0,2,64,1),(0,1,9,65,0),(0,0,1,66,0),(1,0,1,70,0),(0,0,3,20,2)]
t=uniq(q+[(o,n,h,nz,1) for o in (0,1) for n in (0,1) for h in (1,9) for nz in (18,21,33,45,60,61,62,63,64,65,66,67)])
ob("english.big","VerifC15EnglishBig",q,t,
 "~R / ~:R of bignums: the digit hd, nz zeros, then ns digits 0..9 each (engine forks), i.e. numbers around 10^19 .. 10^66 (the names up to vigintillion, 66 digits) against zzC15RefEnglish with its own table of -illion names; 67 and more digits: a Lisp condition, never a Go fault. The round-number regions of C15.english are repaired, so no carve.")

# ---- english ----
q=[(0,0,0,3),(1,0,0,3),(0,1,0,2),(1,1,0,2),(0,0,12,3),(1,0,1000,3)]
t=uniq(q+[(o,n,0,5) for o in (0,1) for n in (0,1)]+[(o,0,f,5) for o in (0,1) for f in (1,9,10,20,99)]+[(o,1,f,4) for o in (0,1) for f in (7,100,999)])
ob("english","VerifC15English",q,t,
 "~R (cardinal) and ~:R (ordinal) on the real control processor for every integer whose decimal digits are a concrete prefix `fix` followed by ns digits 0..9 each (engine forks: dirR indexes its word tables with the digits, so the engine has to enumerate them; the forks are placed in the harness to keep the feasibility queries trivial), optionally negated. Quick: all 0..999 (+/-99), 12000..12999, 1000000..1000999; thorough: all 0..99999 both signs, 6- and 7-digit numbers with prefixes 1,9,10,20,99 (x 10^5), negative 7-digit samples. Oracle zzC15RefEnglish: independent speller by triples (CLHS 22.3.2.1 examples, usual English: hundred / tens-ones with hyphen / thousand, million; ordinal ending on the last word incl. -ieth, hundredth, thousandth, millionth); text compared modulo hyphen-versus-space; the sign word may be 'negative' or 'minus'. The known-finding regions are predicates over the digits.",
 carves=["C15-R-zero-triple","C15-R-round-numbers"])

# ---- roman ----
ob("roman","VerifC15Roman",[(0,3),(1,3)],[(0,4),(1,4)],
 "~@R and ~:@R for every integer 1..999 (quick) / 1..3999 (thorough) (digits enumerated by engine forks) against the greedy subtractive / additive algorithm zzC15RefRoman (no shared tables).")

# ---- move ----
q=[(0,0,1,3,1),(0,1,1,4,1),(1,1,2,4,1),(2,1,2,4,1),(0,2,1,4,1),(1,0,2,3,1),(2,0,2,3,2),(0,3,1,4,0),(2,3,0,2,0),(1,2,2,4,1)]
t=uniq(q+[(mo,p,k,tot,tl) for mo in (0,1,2) for p in (0,1,2,3) for k in (0,1,2) for tot in (4,) for tl in (0,1)])
ob("move","VerifC15Move",q,t,
 "k leading ~D, then |~n*| / ~n:* / ~n@* with n omitted, literal (symbolic digit 0..9 in the control string), by v (case split 0..9) or #, then `tail` more ~D, over `total` symbolic one-digit fixnum arguments. Oracle: the tree evaluator zzC15Eval (CLHS 22.3.7.1, explicit cursor). Programs whose cursor leaves 0..len or that read past the end are illegal uses and assumed away (Go faults there belong to C09). Text and final cursor compared.")

# ---- recur ----
q=[(0,0,2),(0,1,2),(1,0,2),(0,3,0),(1,2,1),(0,2,3)]
t=uniq(q+[(a,b,l) for a in (0,1) for b in (0,1,2,3) for l in (0,1,2,3,4)])
ob("recur","VerifC15Recur",q,t,
 "~D[~?]~D and ~D[~@?]~D: the sub-control (one of four bodies) is passed as a string argument, its arguments as a list (nil or an empty list when there are none) resp. inline; symbolic one-digit arguments. Oracle zzC15Eval (CLHS 22.3.7.6).",
 carves=["C15-recur-nil-list"])

# ---- cond ----
q=[(0,0,3,0,0),(0,0,3,1,1),(0,1,3,0,1),(0,2,2,1,0),(0,3,3,1,0),(1,0,0,0,1),(2,0,0,0,0),(0,0,1,0,0)]
t=uniq(q+[(0,p,n,d,i) for p in (0,1,2,3) for n in (1,2,3,4,5) for d in (0,1) for i in (0,1) if not (n==1 and d==1)]+[(f,0,0,0,i) for f in (1,2) for i in (0,1)])
ob("cond","VerifC15Cond",q,t,
 "(~[c0~;c1~;..~]) with 1..5 clauses, optional ~:; default clause, clauses optionally consuming an argument; the selector symbolic in -2..6 as argument, literal parameter (0..6), v parameter (case split -2..6) or # (1..3 remaining arguments); ~:[alt~;cons~] and ~@[cons~] with nil / non-nil argument. Oracle zzC15Eval (CLHS 22.3.7.2). Text and cursor compared.",
 carves=["C15-cond-negative-param"])

# ---- iter ----
q=[(0,0,0,2,0,0),(0,0,1,4,0,0),(0,1,0,3,0,0),(0,2,3,0,0,0),(1,0,1,2,2,0),(2,0,0,3,0,0),(3,0,1,2,2,0),(1,0,3,0,0,1),(0,0,4,2,0,0),(2,1,0,3,0,0),(3,2,1,2,2,1),(0,0,3,0,0,1),(2,0,4,2,0,0)]
t=list(q)
for f in (0,2):
    for p in (0,1,2):
        for b in (0,1,3,4):
            for l in (0,1,2,4):
                for o in (0,1):
                    if b==3 and p==0 and l>0: continue   # would not terminate (CLHS: same)
                    if b==1 and l%2: continue
                    if o==1 and l==0 and b!=3: continue
                    t.append((f,p,b,l,0,o))
for f in (1,3):
    for p in (0,1,2):
        for b,s in ((0,1),(0,2),(1,2),(3,0),(3,1)):
            for l in (0,1,2,3):
                for o in (0,1):
                    if o==1 and l==0 and b!=3: continue
                    t.append((f,p,b,l,s,o))
ob("iter","VerifC15Iter",q,uniq(t),
 "[~n{body~}] in the four forms ~{ ~:{ ~@{ ~:@{, closed by ~} or ~:}, iteration limit omitted / literal (symbolic 0..5) / v (case split 0..5), bodies \"~D,\" \"~D-~D;\" \"x\" \"~D~^,\", lists of 0..4 symbolic one-digit fixnums resp. 0..3 sublists of 0..2, followed by ~D where the form leaves arguments. Oracle zzC15Eval (CLHS 22.3.7.4, 22.3.9.2). Bodies with ~^ on a non-empty list are the known finding C15-escape-unconditional.",
 carves=["C15-escape-unconditional"])

# ---- plural ----
q=[(0,0),(1,0),(2,0),(3,0),(0,1),(3,2),(1,2),(2,1)]
ob("plural","VerifC15Plural",q,uniq(q+[(f,k) for f in range(4) for k in range(3)]),
 "tr~P| / ~A tr~:P| / ~@P / ~:@P with a symbolic fixnum 0..9, the string \"1\" or nil as argument (CLHS 22.3.8.3: eql 1).")

# ---- case ----
q=[(0,0,1),(3,0,1),(0,1,0),(1,1,0),(2,1,0),(3,1,3),(1,1,3),(2,2,5),(2,1,6),(1,1,7),(1,2,8),(2,1,4),(0,2,3)]
t=uniq(q+[(m,s,n) for m in range(4) for s in (1,2) for n in range(9)]+[(0,0,2),(3,0,2)])
ob("case","VerifC15Case",q,t,
 "<~( … ~)>~D in the four forms. Lower / upper (~( and ~:@( ): the inner text is ~A-Mid ~A over two symbolic strings of n bytes from letters, digits, space, hyphen (n = 1 quick, 2 thorough). Capitalising forms ~:( and ~@( call golang.org/x/text/cases, which the engine can only run natively on concrete bytes: nine concrete sample texts (literal or as ~A argument). Oracle: zzC15Convert (string-downcase / upcase / capitalize with alphanumeric word boundaries; ~@( capitalises the first word only).",
 carves=["C15-case-capitalize"])

# ---- simple ----
t=[(d,p,pr) for d in range(4) for p in range(4) for pr in range(3)]
q=[(0,0,0),(0,1,1),(0,2,2),(0,3,0),(1,0,0),(1,0,1),(1,0,2),(1,1,1),(1,1,2),(1,2,0),(1,3,1),(2,0,1),(2,1,0),(2,3,0),(3,0,1),(3,1,0)]
ob("simple","VerifC15Simple",q,t,
 "<prefix>~n%z, ~n&z, ~n~z, ~n|z with prefix \"\" / \"ab\" / \"ab\\n\" and n omitted, literal (symbolic 0..5), v (case split 0..5), # (0..2 arguments). Oracle zzC15Eval: CLHS 22.3.1.2-22.3.1.5 (~& = fresh-line then n-1 newlines, ~0& nothing; a fresh string starts at column 0).",
 carves=["C15-fresh-line-at-start"])

ob("newline","VerifC15Newline",[(m,n) for m in range(3) for n in (0,2)],[(m,n) for m in range(3) for n in (0,1,2,3)],
 "a~<newline><nsp blanks><c>~D with no modifier, : and @ (CLHS 22.3.9.3); c a symbolic printable byte other than blank and tilde.")

# ---- tab ----
t=[(a,p0,p1,pr) for a in (0,1) for p0 in (0,1,2) for p1 in (0,1,2) for pr in range(5)]
q=[(0,0,0,0),(0,0,0,2),(0,1,0,1),(0,2,1,3),(0,1,2,2),(1,0,0,1),(1,1,0,1),(1,2,2,3),(1,1,1,2),(0,1,0,4),(1,0,1,3)]
ob("tab","VerifC15Tab",q,t,
 "<prefix>~colnum,colincT| and ~colrel,colinc@T| after five prefixes (columns 0, 2, 6, 2 after a newline, 0 after a newline), both parameters omitted / literal / v, case split 0..12. Oracle: CLHS 22.3.6.1 (defaults 1,1; at or beyond colnum -> colnum+k*colinc, smallest k>0; colinc 0 -> nothing; relative: colrel spaces then up to a multiple of colinc). The colon form (pretty-printer sections) is outside.",
 carves=["C15-T-colinc","C15-T-boundary-defaults"])

# ---- char ----
t=[(m,k) for m in range(4) for k in range(8)]
q=[(0,0),(1,0),(2,0),(3,0),(0,1),(1,1),(2,2),(3,3),(1,4),(1,7),(2,6)]
ob("char","VerifC15Char",q,t,
 "<~C> <~:C> <~@C> <~:@C> of a symbolic graphic ASCII character 0x21..0x7e and of Space, Newline, Tab, Backspace, Page, Return, Rubout. Oracle CLHS 22.3.1.1: the character; its name when it is not graphic (~:C, ~:@C); #\\ syntax (~@C).")

# ---- as ----
q=[(0,0,0,0,0),(1,0,0,10,0),(0,2,1,1,2),(1,1,2,3,0),(0,1,0,4,0),(0,3,3,6,0),(1,0,1,6,0),(0,0,1,7,0),(1,2,2,9,0),(0,0,0,5,0),(0,0,0,8,0),(1,1,0,4,0),(0,0,0,1,3),(0,0,4,3,0),(1,2,4,0,0),(0,0,5,3,0),(0,2,6,0,0)]
t=list(q)+[(d,m,p,k,0) for d in (0,1) for m in (0,2) for p in (4,5,6) for k in (0,3,6,8)]
for d in (0,1):
    for m in range(4):
        for p in range(4):
            for (k,n) in ((0,0),(1,2),(2,0),(3,0),(4,0),(5,0),(6,0),(7,0),(8,0),(9,0),(10,0)):
                if d==1 and k==1: continue
                if p==2 and k in (5,7,9): continue
                if p in (2,3) and m in (1,2): continue
                t.append((d,m,p,k,n))
ob("as","VerifC15AS",q,uniq(t),
 "[~mincol,colinc,minpad,padchar<A|S>] with none/:/@/:@, parameters none / mincol literal (symbolic 0..12) / all four by v (mincol 0..12, colinc 1..4, minpad 0..3 case split, padchar symbolic printable) / mincol literal + quoted literal padchar / v,v,# (# read after two v parameters took their arguments) / # alone / #,v, over the argument pool: symbolic fixnum |x|<1000, string of n symbolic printable bytes (~A only: prin1 of a string calls ojg natively, concrete bytes only), a concrete string with quote and backslash, symbol, keyword, symbolic graphic character, nil, t, empty string, flat and nested lists. Reference text: the real princ / prin1 functions writing to a harness stream (the property says ~A = princ, ~S = prin1); ~:A of nil is (). Padding oracle CLHS 22.3.4.1 (minpad copies, then colinc at a time until >= mincol; right, or left with @). Floats are outside (no float text model).",
 carves=["C15-quoted-dirchar-param","C15-princ-string"])

# ---- p2s ----
q=[(0,0),(1,2),(2,0),(3,0),(4,0),(6,0),(8,0)]
ob("p2s","VerifC15PrincToString",q,q+[(5,0),(7,0),(9,0),(10,0),(1,0),(1,1),(1,3)],
 "(format nil \"~A\" x) against (princ-to-string x) — the observation named in the property record — over the same pool. Strings are inside the known finding C15-princ-string.",
 carves=["C15-princ-string"])

# ---- dest ----
ob("dest","VerifC15Dest",[(0,),(1,),(2,),(3,)],[(0,),(1,),(2,),(3,)],
 "The real Format.Call with destination nil (returns the string), an output-stream (harness writer) and t with *standard-output* bound to an output-stream in a child scope: each produces exactly the bytes of the control processor run directly, the stream forms return nil. Four control strings (integer with symbolic value, iteration + ~S, empty control, characters and list); symbolic pieces as in the other obligations.")

# ---- compose / scan ----
ob("compose","VerifC15Compose",[(k,) for k in range(10)],[(k,) for k in range(10)],
 "Ten hand-written compositions of up to five directives (plural after ~D, selector + iteration, case conversion with ~:* back-up, ~@[ then relative and absolute moves, ~@{ nested in ~:{, ~? + ~v[ + ~#*, selector/back-up inside ~{, ~2{ + ~:[ + ~@?, top-level ~^ with and without remaining arguments) over symbolic one-digit arguments, selectors and strings; oracle zzC15Eval; text and cursor compared.",
 carves=["C15-escape-unconditional"])
ob("scan","VerifC15Scan",[(k,) for k in range(9)],[(k,) for k in range(9)],
 "Block directives directly next to each other: empty last / middle clause, clause starting with a nested ~[, nested ~{ resp. ~( closed directly before the outer close (known finding C15-scan-adjacent-blocks), and four neighbouring shapes that must work (~[~;b~], ~{~{~D~},~}, ~{~(~A~)~}, ~:@(~{~A~}~)). Oracle zzC15Eval.",
 carves=["C15-scan-adjacent-blocks"])

json.dump(O, open('/verif/harness/obligations.d/C15.json','w'), indent=1)
print(sum(len(o['cases']['quick']) for o in O), sum(len(o['cases']['thorough']) for o in O))
